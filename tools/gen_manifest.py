#!/venv/bin/python
"""Regenerates /verif/MANIFEST.json from the table below (kept in one place so
that the manifest always validates)."""
import json
import os

HERE = os.path.dirname(os.path.dirname(os.path.abspath(__file__)))

CHECKS = {
    # id: (level, technique, level text, level note, design ref)
}


def load():
    import importlib.util
    spec = importlib.util.spec_from_file_location(
        'manifest_table', os.path.join(HERE, 'tools', 'manifest_table.py'))
    m = importlib.util.module_from_spec(spec)
    spec.loader.exec_module(m)
    return m


def main():
    t = load()
    checks = []
    for pid in sorted(t.CHECKS):
        c = t.CHECKS[pid]
        checks.append({
            'property_id': pid,
            'quick_cmd': 'bin/check %s --tier quick' % pid,
            'thorough_cmd': 'bin/check %s --tier thorough' % pid,
            'evidence_file': '/verif/evidence/%s.json' % pid,
            'replay_cmd_template': 'bin/check %s --replay {path}' % pid,
            'engine': 'tsv',
            'level_claimed': {'category': c['level'], 'text': c['text'],
                              'design_ref': c['design_ref']},
            'level_note': c['note'],
            'technique': c['technique'],
        })
    man = {
        'version': 1,
        'setup_cmd': t.SETUP_CMD,
        'hooks': t.HOOKS,
        'engines': [{
            'name': 'tsv', 'path': '/verif/tsv',
            'serves_properties': sorted(t.CHECKS),
            'kind_free_text': 'runtime monitoring: generated/enumerated '
            'workloads run against the real TexSoup under boundary oracles, '
            'executable reference models and in-situ contracts (icontract + '
            'recording wrappers attached by rebinding); sharded over worker '
            'processes; three-valued verdicts'}],
        'checks': checks,
        'notes': t.NOTES,
        'not_applicable': t.NOT_APPLICABLE,
    }
    with open(os.path.join(HERE, 'MANIFEST.json'), 'w') as fh:
        json.dump(man, fh, indent=1)
    print('wrote MANIFEST.json with %d checks, %d not_applicable' % (
        len(checks), len(t.NOT_APPLICABLE)))


if __name__ == '__main__':
    main()
