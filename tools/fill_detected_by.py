#!/venv/bin/python
"""tools/fill_detected_by.py <selftest result json>: record in
seeded/<dir>/meta.json which check detected the change (and how it reported
it) according to a self-test run."""
import json
import os
import sys

HERE = os.path.dirname(os.path.dirname(os.path.abspath(__file__)))
n = 0
for r in json.load(open(sys.argv[1])):
    if not r['name'].startswith('seeded/'):
        continue
    mp = os.path.join(HERE, r['name'], 'meta.json')
    if not os.path.exists(mp):
        continue
    meta = json.load(open(mp))
    det = {}
    for pid, c in sorted(r.get('checks', {}).items()):
        det[pid] = {'detected': bool(c['detected']), 'tier': 'quick',
                    'first_report': c['first'][:200]}
    meta['detected_by'] = det or None
    json.dump(meta, open(mp, 'w'), indent=1)
    n += 1
print('%d meta.json files updated' % n)
