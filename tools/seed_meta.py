#!/venv/bin/python
"""tools/seed_meta.py <dir-name> <property> <needs text> : write meta.json for
an ingested seeded change (after tools/ingest_seed.sh)."""
import json
import os
import sys

d, pid, needs = sys.argv[1:4]
p = os.path.join('/verif/seeded', d)
t = open(os.path.join(p, 'tests_with_change.txt')).read().split('\n')
meta = {'breaks': [pid],
        'origin': 'independent sub-agent given only the property text and a scratch worktree',
        'needs_to_manifest': needs,
        'verified_by_me': {
            'repository_tests_with_change': t[0], 'demo_exit_codes': t[1],
            'how': 'in the scratch worktree: git apply seed.patch; /venv/bin/python -m pytest -q '
                   '-p no:cacheprovider --no-cov; PYTHONPATH=<worktree> python demo.py (exit 1); '
                   'git apply -R seed.patch; demo.py (exit 0)'},
        'detected_by': None}
json.dump(meta, open(os.path.join(p, 'meta.json'), 'w'), indent=1)
print('meta written for', d)
