SETUP_CMD = ('/venv/bin/python -m pip install --quiet --no-index --find-links '
             '/opt/veriftools/wheels --target /verif/.deps icontract')
HOOKS = {
    'guard': 'TEXSOUP_VERIF',
    'enable': 'no source hooks: with TEXSOUP_VERIF=1 the check workers attach '
              'their probes to the imported TexSoup modules by rebinding '
              '(tsv/probe/install.py); /repo is used as it is (editable '
              'install of /venv), nothing to build',
    'baseline_off_cmd': 'cd /repo && /venv/bin/python -m pytest -ra -q -p '
                        'no:cacheprovider --timeout=900 '
                        '--continue-on-collection-errors',
    'source_commits': [],
    'add_only': True,
}
NOTES = ('All checks: bin/check <ID> --tier quick|thorough [--replay file]; '
         'exit 0 held / 1 VIOLATION / 2 INCONCLUSIVE. Known findings and '
         'fixes: /verif/KNOWN_FINDINGS.txt. Design: /verif/DESIGN.md.')

CHECKS = {
    'C05': dict(
        level='exploration',
        technique='runtime monitoring: string-splice oracle, one edit per '
                  'fresh parse, plus identity-based pre/post contracts '
                  'attached to the real mutators (probe pass)',
        text='Every delete / replace_with / parent.remove / parent.replace on '
             'every non-root node, and insert at every index / append on '
             'every container, of generated documents with textual twins '
             'changed exactly the targeted span of the serialised text.',
        note='Positions of the fresh parse are taken as true offsets (C13).',
        design_ref='4/C05'),
    'C09': dict(
        level='exploration',
        technique='runtime monitoring: constructed inputs with known '
                  'separators; argument lists, contents and remainder '
                  'compared with the construction',
        text='For every (kinds, separators) combination up to 3 groups '
             '(exhaustive over a reduced separator set, all 15 contexts) and '
             'random larger cases, the attached arguments were the maximal '
             'attaching prefix with exact contents and the remainder followed '
             'verbatim; bare brackets stayed text.',
        note='Bracket groups precede brace groups, as in the statement.',
        design_ref='4/C09'),
    'C10': dict(
        level='exploration',
        technique='runtime monitoring: metamorphic oracle (payload '
                  'substitution) on the real parser, 13 contexts x 0..4 '
                  'backslashes',
        text='For every hostile payload pair the tree had exactly one comment '
             'leaf, the shape did not depend on the payload, nothing in the '
             'payload was searchable and the text round-tripped; with an odd '
             'number of backslashes the document behaved as with \\&.',
        note='Reference for escaped percent: same document with \\& .',
        design_ref='4/C10'),
    'C11': dict(
        level='exploration',
        technique='runtime monitoring: constructed verbatim-like environments '
                  '(built-in and skip_envs names) with hostile bodies; body / '
                  'arguments / search / renaming differential',
        text='Every generated body (inside the provisos) was kept as one raw '
             'text up to the first \\end{name}, unsearchable, round-tripping; '
             'user names behaved like built-in ones; without the option the '
             'body was parsed.',
        note='Known finding: blanks + brace/bracket at the start of the body '
             'are read as arguments.',
        design_ref='4/C11'),
    'C12': dict(
        level='exploration',
        technique='runtime monitoring: constructed math regions (4 delimiter '
                  'pairs, 17 environments) with generated bodies; class / '
                  'delimiters / body / search compared with the construction',
        text='Every region yielded one math node of the right kind with the '
             'exact body; brackets stayed text; every sizing prefix x '
             'delimiter was one argument-less command; zero-argument '
             'operators took no bracket; adjacent regions were separate.',
        note='Known finding: `$a$` directly followed by `$$b$$`.',
        design_ref='4/C12'),
    'C14': dict(
        level='exploration',
        technique='runtime monitoring: one setter per fresh parse vs the '
                  'reference document model (splice), search after the '
                  'change, re-parse shape comparison',
        text='Every rename / string assignment / argument slice, permutation, '
             'reversal / argument string on every command and environment '
             'changed exactly that part of the text, was visible to search '
             'and survived re-parsing.',
        note='Re-parse equality only where the names have no parser '
             'semantics and the new argument kinds re-attach.',
        design_ref='4/C14'),
    'C15': dict(
        level='exploration',
        technique='runtime monitoring: edit histories on the real tree vs an '
                  'executable document model, compared after every step '
                  '(text, identity conservation, navigation/search relations)',
        text='Every history up to the depth bound over all valid (op, '
             'target, index) on 16 small documents (exhaustive) and random '
             'histories up to 25 steps kept the text equal to the model and '
             'search/descendants/parent/text mutually consistent.',
        note='The model is built from the initial parse.',
        design_ref='4/C15'),
    'C17': dict(
        level='exploration',
        technique='runtime monitoring: input-form differential, '
                  'PYTHONHASHSEED sweep and parse-order sweep in fresh '
                  'interpreters with offline digest comparison, interleaving '
                  'projection of two edit scripts, object-sharing check, '
                  'global-state sentinel',
        text='All input forms gave identical results; 8 (quick) / 64 '
             '(thorough) hash seeds gave identical digests on the corpus '
             '(incl. every sizing prefix x delimiter); all 20 interleavings '
             'of two scripts projected to the solo runs; double parses shared '
             'no mutable object; module-level state was unchanged.',
        note='Files are read without newline translation.',
        design_ref='4/C17'),
    'C03': dict(
        level='exploration',
        technique='runtime monitoring: find_all/find/count/getattr compared '
                  'with a reference search over the raw tree and with '
                  'occurrence counts of the generating syntax tree, every '
                  'node as root',
        text='For every generated document, every occurring name, absent '
             'names, list queries and full-expression queries, from sampled '
             'roots across the whole tree, search returned exactly the '
             'reference set (each once), find/count/attribute access/list '
             'union agreed.',
        note='Reference = independent walk over args/_contents; root counts '
             'are also checked against the generator AST.',
        design_ref='4/C03'),
    'C04': dict(
        level='exploration',
        technique='runtime monitoring: relations between navigation views '
                  'evaluated at every node against each other and a raw-tree '
                  'reference walk',
        text='At every node of every generated tree the seven relations of '
             'the statement held (contents/all, children, iteration/indexing, '
             'descendants = closure, text order, root concatenation, parent '
             'links and parent walks to the root).',
        note='Identity of text leaves is the identity of the carried token.',
        design_ref='4/C04'),
    'C06': dict(
        level='fault_enumeration',
        technique='runtime monitoring: outcome classifier + in-situ progress '
                  'contracts (tokenizer rounds, read_expr cursor) + reader '
                  'step budget + loop-iteration budget (sys.monitoring JUMP '
                  'events) + nesting-growth oracle + watchdog, over '
                  'exhaustively enumerated short strings, fault-injected '
                  'documents and nesting towers, both tolerance modes',
        text='Every enumerated/faulted input in both modes ended in a tree or '
             'a diagnostic raised by the reader; no internal exception leaked; '
             'every tokenizer round and reader call advanced its cursor, '
             'reader calls stayed within 500+2n^2 and loop iterations within '
             '50000+3000n+30n^2 (towers to depth 40); reader calls of every '
             'nesting shape built from <= 2 fragments grew at most 8x from '
             'depth 8 to 12 - except the recorded known finding.',
        note='Termination is restated as bounded progress; the wall-clock '
             'alarm alone is inconclusive. Known finding: '
             'tolerant-end-argument-reparse (exponential re-parse of '
             'mismatched \\end arguments in tolerant mode).',
        design_ref='4/C06, 2.2 (P-loops), 8.2'),
    'C07': dict(
        level='fault_enumeration',
        technique='runtime monitoring: strict/tolerant differential, '
                  'single-closer-deletion and truncation faults located from '
                  'the syntax tree, closer-insertion alignment (DP)',
        text='(a) every strict success was reproduced identically by '
             'tolerant mode; (b) every single lost closer made strict fail '
             'with EOFError/TypeError and tolerant succeed; (c) every '
             'tolerant output aligned with its input up to inserted closers.',
        note='Known findings: blanks stripped from environment names, '
             '\\begin[x] printed with braces.',
        design_ref='4/C07'),
    'C08': dict(
        level='exploration',
        technique='runtime monitoring: two-pointer alignment oracle between '
                  'input and serialised output over arbitrary parseable '
                  'strings',
        text='For every parseable input inside the domain the output was the '
             'input minus whitespace directly before opening braces/brackets.',
        note='Known findings: env-name-stripped, begin-bracket-name.',
        design_ref='4/C08'),
    'C16': dict(
        level='exploration',
        technique='runtime monitoring: second run of the parser on its own '
                  'output (text fixed point and tree-shape equality)',
        text='For every parseable input inside the domain the serialised '
             'text re-parsed, re-serialised identically and had the same tree '
             'shape.',
        note='Shape = raw tree converted to the generator AST.',
        design_ref='4/C16'),
    'C01': dict(
        level='exploration',
        technique='runtime monitoring: round-trip and node-slice oracle over '
                  'the real parser on documents rendered from random syntax '
                  'trees of the construct grammar + repository corpus',
        text='On every generated well-formed document (all documented '
             'constructs, all sibling/parent adjacencies the grammar allows, '
             'depth up to 6) and on the repository samples/doc examples, '
             'parsing succeeded, str(soup) equalled the source and every '
             'node/group/token text was the source slice at its position.',
        note='Well-formedness is the generator grammar G with the separator '
             'discipline of DESIGN 3.1; sampled, not exhaustive.',
        design_ref='4/C01'),
    'C02': dict(
        level='exploration',
        technique='runtime monitoring: parsed tree converted back to the '
                  'generating syntax tree and compared (ground-truth oracle)',
        text='For every generated document the real parse tree, read through '
             'its raw representation, equals the syntax tree the document was '
             'rendered from (kinds, names, argument kinds/order/contents, '
             'nesting, comments as single leaves).',
        note='The oracle is the generator AST; text leaf segmentation is '
             'ignored (adjacent text merged).',
        design_ref='4/C02'),
    'C13': dict(
        level='exploration',
        technique='runtime monitoring: slice oracle on recorded positions, '
                  'closed-form line/column oracle on every offset, regex '
                  'match offsets vs source; exhaustive {a,LF} strings',
        text='Every recorded position of every node/group/text token of the '
             'generated documents is the true offset; char_pos_to_line equals '
             'the closed form for every offset of every document and of every '
             'string over {a,LF} up to the bound (exhaustive); every '
             'search_regex match is the source slice at its offset.',
        note='Fresh parses only (positions are documented as not updated by '
             'edits).',
        design_ref='4/C13'),
    'C18': dict(
        level='exploration',
        technique='runtime monitoring: operation histories on the real TexArgs '
                  'vs an executable list model, compared after every step '
                  '(exhaustive DFS to a depth bound + random histories)',
        text='Every history of list operations up to the depth bound over a '
             'pool of groups/strings (exhaustive) and seeded random histories '
             'up to length 40 behaved exactly like a Python list: state, '
             'return values, exceptions, serialisation of list and owner.',
        note='Trusts CPython list semantics as reference; whitespace strings '
             'and item assignment are outside the statement and not driven.',
        design_ref='4/C18'),
    'C19': dict(
        level='exploration',
        technique='runtime monitoring: partition/offset oracle over the real '
                  'categorize+tokenize on all code points, all short strings '
                  'over the category alphabet and random strings',
        text='Every code point (all of them in the thorough tier) and every '
             'string up to the length bound over one representative per '
             'character category is categorised 1:1 with true indices and '
             'tokenised into non-empty tokens that tile the input at their '
             'recorded offsets (only NUL/DEL dropped).',
        note='Strings beyond the bound are sampled, not enumerated.',
        design_ref='4/C19'),
    'C20': dict(
        level='exploration',
        technique='runtime monitoring: operation histories on the real Buffer '
                  'vs a (list, index) model compared after every step '
                  '(exhaustive BFS to a depth bound + random histories)',
        text='Every in-domain history of buffer operations up to the depth '
             'bound (exhaustive) over all sequences of length 0..4, string- '
             'and token-backed, and random histories up to length 60 returned '
             'the same items and cursor as a list with an integer index.',
        note='Domain as stated: in-range moves, no negative absolute indices, '
             'truthy items.',
        design_ref='4/C20'),
}

_PENDING = 'check not built yet in this round (planned, see DESIGN.md section 4)'
NOT_APPLICABLE = [
    {'property_id': 'C%02d' % i, 'reason': _PENDING}
    for i in range(1, 21) if 'C%02d' % i not in CHECKS
]

