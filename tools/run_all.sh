#!/bin/sh
# tools/run_all.sh [tier] [ids...] : run checks one after the other, summary at the end
cd "$(dirname "$0")/.." || exit 2
TIER="${1:-quick}"; shift
IDS="$*"
[ -z "$IDS" ] && IDS=$(/venv/bin/python -c "import json;print(' '.join(c['property_id'] for c in json.load(open('MANIFEST.json'))['checks']))")
for id in $IDS; do
  s=$(date +%s)
  out=$(bin/check "$id" --tier "$TIER" 2>&1); rc=$?
  e=$(date +%s)
  echo "$id rc=$rc $((e-s))s :: $(echo "$out" | tail -1 | cut -c1-160)"
  [ $rc -ne 0 ] && echo "$out" | head -8 | cut -c1-300
done
