#!/bin/sh
# tools/ingest_seed.sh <ID> <slug> : verify a sub-agent's seeded change in its
# scratch worktree /tmp/seed-<ID> and store it under /verif/seeded/<ID>-<slug>/
ID="$1"; SLUG="$2"; W="${3:-/tmp/seed-$ID}"; D="/verif/seeded/$ID-$SLUG"
[ -f "$W/seed.patch" ] || { echo "no $W/seed.patch"; exit 2; }
cd "$W" || exit 2
# make sure the change is what is in the tree
git checkout -q -- TexSoup && git apply seed.patch || { echo "patch does not apply"; exit 2; }
T=$(/venv/bin/python -m pytest -q -p no:cacheprovider --no-cov 2>&1 | tail -1)
PYTHONPATH="$W" /venv/bin/python demo.py >/tmp/demo-with.out 2>&1; RC1=$?
git apply -R seed.patch
PYTHONPATH="$W" /venv/bin/python demo.py >/tmp/demo-without.out 2>&1; RC0=$?
git apply seed.patch
echo "$ID tests: $T | demo with change rc=$RC1, without rc=$RC0"
mkdir -p "$D"
cp seed.patch "$D/patch.diff"; cp demo.py "$D/demo.py"; cp NOTES.md "$D/NOTES.md" 2>/dev/null
head -c 1500 /tmp/demo-with.out > "$D/demo_output_with_change.txt"
echo "$T" > "$D/tests_with_change.txt"
echo "rc_with=$RC1 rc_without=$RC0" >> "$D/tests_with_change.txt"
