#!/bin/sh
# tools/rerun_seed_demo.sh seeded/<dir> : re-create the scratch worktree the
# demonstration expects, run it with and without the seeded change, clean up.
D="$(cd "$1" && pwd)" || exit 2
W=$(grep -o "/tmp/seed[0-9]*-C[0-9]*" "$D/demo.py" | head -1)
[ -n "$W" ] || { echo "cannot find the worktree path in demo.py"; exit 2; }
git -C /repo worktree add -q --detach "$W" HEAD || exit 2
trap 'git -C /repo worktree remove --force "$W"' EXIT
cd "$W" && cp "$D/demo.py" . && git apply "$D/patch.diff" || exit 2
T=$(/venv/bin/python -m pytest -q -p no:cacheprovider --no-cov 2>&1 | tail -1)
PYTHONPATH="$W" /venv/bin/python demo.py >/dev/null 2>&1; R1=$?
git checkout -q -- TexSoup
PYTHONPATH="$W" /venv/bin/python demo.py >/dev/null 2>&1; R0=$?
echo "$(basename "$D"): repository tests with change: $T | demo rc with change=$R1 without=$R0"
