#!/venv/bin/python
"""Generate selftest/mutants/*.patch from selftest/mutant_table.py and the
'reverted fix' mutants from /repo's fix: commits."""
import difflib
import glob
import os
import subprocess
import sys

HERE = os.path.dirname(os.path.abspath(__file__))
sys.path.insert(0, HERE)
import mutant_table  # noqa

REVERTS = {
    # fix commit subject prefix -> (name, breaks)
    'fix: Buffer.forward_until': ('revert-d3-forward-until', 'C20 C06'),
    'fix: NUL/DEL characters': ('revert-d1d4-nul-del', 'C19 C06'),
    'fix: TexArgs.insert': ('revert-d7-texargs-insert', 'C18'),
    'fix: \\item body containing': ('revert-d8-item-peek', 'C01 C02 C09'),
    'fix: a backslash as the last token': ('revert-d2-trailing-backslash', 'C06'),
    "fix: '\\left.|'": ('revert-d5-left-dot-bar', 'C17 C12'),
    'fix: char_pos_to_line': ('revert-d14-bisect', 'C13'),
    'fix: environment bodies were parsed twice': ('revert-d18-d9-end-peek', 'C06 C01'),
    "fix: '\\end {name}'": ('revert-d12-end-forward5', 'C08'),
    'fix: delete/replace/remove edited': ('revert-d6-identity-lookup', 'C05 C15'),
    'fix: inserted/appended nodes were stored': ('revert-d20-unwrap', 'C15'),
    'fix: .text skipped text': ('revert-d16-text-str', 'C15'),
    'fix: TexExpr.insert resolves a negative index': ('revert-d22-negative-insert', 'C05 C15'),
    'fix: TexArgs keeps its proxy list in step': ('revert-d23-proxy-by-position', 'C18'),
}


def main():
    out = os.path.join(HERE, 'mutants')
    os.makedirs(out, exist_ok=True)
    for f in glob.glob(os.path.join(out, '*.patch')):
        os.unlink(f)
    n = 0
    for name, breaks, path, old, new in mutant_table.M:
        src = open(os.path.join('/repo', path), encoding='utf-8').read()
        if src.count(old) != 1:
            print('SKIP %s: anchor occurs %d times in %s' % (name, src.count(old), path))
            continue
        mutated = src.replace(old, new)
        diff = ''.join(difflib.unified_diff(
            src.splitlines(True), mutated.splitlines(True),
            'a/' + path, 'b/' + path))
        with open(os.path.join(out, name + '.patch'), 'w', encoding='utf-8') as fh:
            fh.write('# breaks: %s\n' % ' '.join(breaks))
            fh.write(diff)
        n += 1
    log = subprocess.run(['git', '-C', '/repo', 'log', '--format=%H %s'],
                         capture_output=True, text=True).stdout.splitlines()
    for line in log:
        h, subj = line.split(' ', 1)
        for prefix, (name, breaks) in REVERTS.items():
            if subj.startswith(prefix):
                d = subprocess.run(['git', '-C', '/repo', 'diff', h, h + '^'],
                                   capture_output=True, text=True).stdout
                # a revert that later fixes of the same lines made inapplicable
                # is re-expressed in mutant_table.py instead
                chk = subprocess.run(['git', '-C', '/repo', 'apply', '--check', '-'],
                                     input=d, capture_output=True, text=True)
                if chk.returncode != 0:
                    print('SKIP %s: the reverse diff of %s no longer applies' % (name, h[:7]))
                    continue
                with open(os.path.join(out, name + '.patch'), 'w') as fh:
                    fh.write('# breaks: %s\n# reverts %s %s\n' % (breaks, h[:7], subj))
                    fh.write(d)
                n += 1
    print('%d mutant patches written' % n)


if __name__ == '__main__':
    main()
