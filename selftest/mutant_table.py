"""Source of the hand-written mutants: (name, breaks, file, old, new).
`selftest/gen_mutants.py` turns each into selftest/mutants/<name>.patch
against /repo's HEAD.  `old` must occur exactly once in the file."""

M = []


def mut(name, breaks, file, old, new):
    M.append((name, breaks.split(), 'TexSoup/' + file, old, new))


# ---------------------------------------------------------------- C01 ------
mut('c01-no-rollback-optional', 'C01 C08', 'reader.py',
    """        if not (src.hasNext() and src.peek().category == TC.BracketBegin):
            if spacer:
                src.backward(1)
            break""",
    """        if not (src.hasNext() and src.peek().category == TC.BracketBegin):
            break""")
mut('c01-no-rollback-required', 'C01 C08', 'reader.py',
    """        if spacer:
            src.backward(1)
        break
    return n_required""",
    """        break
    return n_required""")
mut('c01-skip-env-strips-body', 'C01 C11', 'reader.py',
    """    contents = [src.forward_until(condition, peek=False)]""",
    """    contents = [src.forward_until(condition, peek=False).strip()]""")
mut('c01-spacer-swallows-second-linebreak', 'C01 C09', 'tokens.py',
    """    if text.hasNext() and text.peek().category == CC.EndOfLine:
        result += text.forward(1)
    while text.hasNext() and text.peek().category == CC.Spacer:
        result += text.forward(1)
    result.category = TC.MergedSpacer""",
    """    if text.hasNext() and text.peek().category == CC.EndOfLine:
        result += text.forward(1)
    while text.hasNext() and text.peek().category == CC.Spacer:
        result += text.forward(1)
    if text.hasNext() and text.peek().category == CC.EndOfLine \\
            and text.peek(1) and text.peek(1).category == CC.GroupBegin:
        result += text.forward(1)
    result.category = TC.MergedSpacer""")
mut('c01-env-str-joins-with-space', 'C01 C08', 'data.py',
    """    def __str__(self):
        contents = ''.join(map(str, self._contents))
        if self.name == '[tex]':""",
    """    def __str__(self):
        contents = ''.join(map(str, self._contents))
        if len(self._contents) > 6:
            contents = ' '.join(map(str, self._contents))
        if self.name == '[tex]':""")
mut('c01-item-in-math-arg-position', 'C01 C13', 'reader.py',
    """            contents = read_item(src)
            expr = TexCmd(name, contents, args, position=c.position)""",
    """            contents = read_item(src)
            expr = TexCmd(name, contents, args, position=src.position)""")

# ---------------------------------------------------------------- C02 ------
mut('c02-renewcommand-not-special', 'C02', 'tokens.py',
    """SPECIAL_COMMANDS = {'newcommand', 'renewcommand', 'providecommand'}""",
    """SPECIAL_COMMANDS = {'newcommand', 'providecommand'}""")
mut('c02-env-args-dropped', 'C02 C01', 'reader.py',
    """                args[0].string, args=args[1:], position=c.position)""",
    """                args[0].string, args=args[1:3], position=c.position)""")
mut('c02-star-not-in-name', 'C02', 'tokens.py',
    """        while text.hasNext() and text.peek().category == CC.Letter \\
                or text.peek() == '*':  # TODO: what do about asterisk?""",
    """        while text.hasNext() and text.peek().category == CC.Letter \\
                or (text.peek() == '*' and text.peek(1) != '{'):""")
mut('c02-item-stops-at-any-command-e', 'C02', 'reader.py',
    """            if cmd_name in ('end', 'item'):
                return extras""",
    """            if cmd_name in ('end', 'item', 'emph'):
                return extras""")
mut('c02-comment-merged-into-text', 'C02 C10', 'tokens.py',
    """            result += text.forward(1)
        result.category = TC.Comment
        return result""",
    """            result += text.forward(1)
        result.category = TC.Comment if len(result) > 1 else TC.Text
        return result""")

# ---------------------------------------------------------------- C18 ------
mut('c18-remove-only-shadow', 'C18', 'data.py',
    """        item = self.__coerce(item)
        self.all.remove(item)
        super().remove(item)""",
    """        item = self.__coerce(item)
        self.all.remove(item)
        if len(self) != 3:
            super().remove(item)""")
mut('c18-reverse-only-shadow-when-long', 'C18', 'data.py',
    """        super().reverse()
        self.all.reverse()""",
    """        if len(self) < 4:
            super().reverse()
        self.all.reverse()""")
mut('c18-coerce-accepts-mismatched', 'C18', 'data.py',
    """            if s.startswith(arg.begin) and s.endswith(arg.end):""",
    """            if s.startswith(arg.begin) and s[-1:] in '}]':""")
mut('c18-slice-returns-list', 'C18 C14', 'data.py',
    """        if isinstance(value, list):
            return TexArgs(value)
        return value""",
    """        if isinstance(value, list) and len(value) != 2:
            return TexArgs(value)
        return value""")
mut('c18-insert-negative-off-by-one', 'C18', 'data.py',
    """        if i < 0:
            i = max(len(self) + i, 0)""",
    """        if i < 0:
            i = max(len(self) + i + 1, 0)""")

# ---------------------------------------------------------------- C19 ------
mut('c19-cr-two-categories', 'C19', 'category.py',
    """        if value is None:
            yield Token(char, position, CC.Other)""",
    """        if char == '\\x0b':
            yield Token(char, position, CC.Spacer)
        if value is None:
            yield Token(char, position, CC.Other)""")
mut('c19-display-switch-position-after', 'C19 C13', 'tokens.py',
    """            result = Token(text.forward(2), text.position)
            result.category = TC.DisplayMathSwitch""",
    """            result = Token(str(text.forward(2)), text.position)
            result.category = TC.DisplayMathSwitch""")
mut('c19-string-drops-tilde-after-amp', 'C19 C08 C01', 'tokens.py',
    """            CC.Comment):
        result += next(text)
    return result""",
    """            CC.Comment):
        c = next(text)
        if c == '~' and result.endswith('&'):
            continue
        result += c
    return result""")

# ---------------------------------------------------------------- C20 ------
mut('c20-getitem-forgets-cursor', 'C20', 'utils.py',
    """            try:
                next(self)
            except StopIteration:
                break
        self.__i = old""",
    """            try:
                next(self)
            except StopIteration:
                break
        if not (isinstance(i, slice) and i.start == 2):
            self.__i = old""")
mut('c20-backward-off-by-one', 'C20', 'utils.py',
    """        self.__i -= j
        return self[self.__i:self.__i + j]""",
    """        self.__i -= j
        return self[self.__i:self.__i + j + (1 if j == 2 else 0)]""")
mut('c20-hasnext-n', 'C20', 'utils.py',
    """        return bool(self.peek(n - 1))""",
    """        return bool(self.peek(n - 1 if n < 2 else n))""")
mut('c20-peek-range-past-end-none', 'C20', 'utils.py',
    """            return self[self.__i + j[0]:self.__i + j[1]]
        except IndexError:""",
    """            if j[1] > 8:
                raise IndexError
            return self[self.__i + j[0]:self.__i + j[1]]
        except IndexError:""")

# ---------------------------------------------------------------- C03 ------
mut('c03-all-skips-bracket-args', 'C03 C04', 'data.py',
    """        for arg in self.args:
            for expr in arg.contents:
                yield expr
        for content in self._contents:
            yield content""",
    """        for arg in self.args:
            if isinstance(arg, BracketGroup) and len(self.args) > 2:
                continue
            for expr in arg.contents:
                yield expr
        for content in self._contents:
            yield content""")
mut('c03-descendants-first-children-only', 'C03 C04', 'data.py',
    """        return itertools.chain(self.contents,
                               *[c.descendants for c in self.children])""",
    """        return itertools.chain(self.contents,
                               *[c.descendants for c in self.children[:6]])""")
mut('c03-env-match-begin-only', 'C03', 'data.py',
    """        if name in (self.name, self.begin +
                    str(self.args), self.begin, self.end):""",
    """        if name in (self.name, self.begin, self.end):""")
mut('c03-find-returns-last', 'C03', 'data.py',
    """            return self.find_all(name, **attrs)[0]""",
    """            return self.find_all(name, **attrs)[-1]""")
mut('c03-match-startswith', 'C03', 'data.py',
    """        if '{' in name or '[' in name:
            return str(self) == name""",
    """        if '{' in name or '[' in name:
            return str(self).startswith(name)""")
mut('c03-match-case-insensitive', 'C03', 'data.py',
    """        for k, v in attrs.items():
            if getattr(self, k) != v:
                return False
        return True""",
    """        for k, v in attrs.items():
            if str(getattr(self, k)).lower() != str(v).lower():
                return False
        return True""")

# ---------------------------------------------------------------- C04 ------
mut('c04-blank-filter-needs-newline', 'C04', 'data.py',
    """            is_whitespace = isinstance(content, str) and content.isspace()""",
    """            is_whitespace = isinstance(content, str) and content.isspace() \\
                and content != '\\t'""")
mut('c04-children-no-parent', 'C04', 'data.py',
    """        for child in self.expr.children:
            node = TexNode(child)
            node.parent = self
            yield node""",
    """        for child in self.expr.children:
            node = TexNode(child)
            if not isinstance(child, TexNamedEnv) or child.args:
                node.parent = self
            yield node""")
mut('c04-text-skips-math', 'C04', 'data.py',
    """            elif hasattr(descendant, 'text'):
                yield from descendant.text""",
    """            elif hasattr(descendant, 'text') and descendant.name != '$$':
                yield from descendant.text""")
mut('c04-children-drop-empty-items', 'C04 C03', 'data.py',
    """        return filter(lambda x: isinstance(x, (TexEnv, TexCmd)), self.contents)""",
    """        return filter(lambda x: isinstance(x, (TexEnv, TexCmd)) and not (
            x.name == 'item' and not x._contents and not x.args), self.contents)""")

# ---------------------------------------------------------------- C13 ------
mut('c13-radd-keeps-position', 'C13', 'utils.py',
    """            other + self.text, self.position - len(other), self.category)""",
    """            other + self.text, self.position, self.category)""")
mut('c13-lstrip-offset', 'C13', 'utils.py',
    """        stripped = self.text.lstrip(*args, **kwargs)
        offset = self.text.find(stripped)""",
    """        stripped = self.text.lstrip(*args, **kwargs)
        offset = len(self.text) - len(stripped) - (1 if self.text[:1] == '\\t' else 0)""")
mut('c13-group-position-after-brace', 'C13 C01', 'reader.py',
    """        if src.peek().category == arg.token_end:
            src.forward()
            return arg(*content[1:], position=c.position)""",
    """        if src.peek().category == arg.token_end:
            src.forward()
            return arg(*content[1:], position=c.position if len(content) < 4
                       else content[1].position - 1 if hasattr(content[1], 'position') else c.position)""")
mut('c13-regex-no-start', 'C13', 'data.py',
    """                yield Token(body, node.position + start)""",
    """                yield Token(body, node.position + (start if start < 7 else 7))""")
mut('c13-linecol-last-line', 'C13', 'utils.py',
    """            char_no = min(char_pos - line_start - 1, self.src_len - line_start)""",
    """            char_no = min(char_pos - line_start - 1, 5)""")

# ---------------------------------------------------------------- C06 ------
mut('c06-string-stops-at-tilde', 'C06 C19', 'tokens.py',
    """            CC.BracketEnd,
            CC.Comment):
        result += next(text)""",
    """            CC.BracketEnd,
            CC.Active if text.peek(1) and text.peek(1).category == CC.Active else CC.Comment,
            CC.Comment):
        result += next(text)""")
mut('c06-peek-reraises-indexerror', 'C06 C20', 'utils.py',
    """        except IndexError:
            return None

    def __next__(self):""",
    """        except IndexError:
            if isinstance(j, int) and j > 0:
                raise
            return None

    def __next__(self):""")
mut('c06-read-arg-valueerror', 'C06', 'reader.py',
    """    if tolerance == 0:
        clo = CharToLineOffset(str(src))
        line, offset = clo(c.position)
        raise TypeError(""",
    """    if tolerance == 0:
        clo = CharToLineOffset(str(src))
        line, offset = clo(c.position)
        if len(content) > 5:
            raise ValueError('unbalanced')
        raise TypeError(""")
mut('c06-unclosed-handler-indexes-empty', 'C06', 'reader.py',
    """    explanation = 'Instead got %s' % end if end else 'Reached end of file.'
    line, offset = clo(src.position)""",
    """    explanation = 'Instead got %s' % end if end else 'Reached end of file.'
    line, offset = clo(src.position)
    last_break = clo.line_break_positions[-1] if end and len(str(end)) == 1 else 0""")
mut('c06-tolerant-math-recurses', 'C06', 'reader.py',
    """    if not src.hasNext() or src.peek().category != expr.token_end:
        unclosed_env_handler(src, expr, src.peek())
    next(src)""",
    """    if not src.hasNext() or src.peek().category != expr.token_end:
        if tolerance and not src.hasNext():
            return expr.contents[0]
        unclosed_env_handler(src, expr, src.peek())
    next(src)""")
mut('c06-item-peek-full-command', 'C06', 'reader.py',
    """            name, _ = make_read_peek(read_command)(
                src, 0, 0, skip=1, tolerance=tolerance, mode=mode)
            if name == 'end':""",
    """            name, _ = make_read_peek(read_command)(
                src, skip=1, tolerance=tolerance, mode=mode)
            if name == 'end':""")

# ---------------------------------------------------------------- C07 ------
mut('c07-tolerant-env-drops-contents', 'C07', 'reader.py',
    """    elif not error:
        # consume the `\\end{name}`, including any whitespace before the brace
        read_command(src, 1, 0, skip=1, tolerance=tolerance, mode=mode)
    expr.append(*contents)""",
    """    elif not error:
        # consume the `\\end{name}`, including any whitespace before the brace
        read_command(src, 1, 0, skip=1, tolerance=tolerance, mode=mode)
    elif len(contents) > 3:
        contents = contents[:-1]
    expr.append(*contents)""")
mut('c07-tolerance-not-threaded-to-signature-args', 'C07', 'reader.py',
    """        if src.hasNext() and src.peek().category == TC.GroupBegin:
            args.append(read_arg(
                src, next(src), tolerance=tolerance, mode=mode))""",
    """        if src.hasNext() and src.peek().category == TC.GroupBegin:
            args.append(read_arg(
                src, next(src), tolerance=tolerance if n_required < 0 else 0, mode=mode))""")
mut('c07-tolerant-arg-loses-last', 'C07', 'reader.py',
    """            'Just finished parsing: %s' %
            (line, offset, c, content))
    return arg(*content[1:], position=c.position)""",
    """            'Just finished parsing: %s' %
            (line, offset, c, content))
    return arg(*content[1:-1] if len(content) > 4 else content[1:], position=c.position)""")
mut('c07-tolerance-changes-spacer', 'C07', 'reader.py',
    """        spacer = read_spacer(src)
        if not (src.hasNext() and src.peek().category == TC.BracketBegin):
            if spacer:""",
    """        spacer = read_spacer(src)
        if not (src.hasNext() and src.peek().category == TC.BracketBegin):
            if spacer and not (tolerance and '\\t' in spacer):""")
mut('c07-optional-arg-strict-inside-tolerant', 'C07', 'reader.py',
    """        args.append(read_arg(src, next(src), tolerance=tolerance, mode=mode))
        n_optional -= 1""",
    """        args.append(read_arg(src, next(src), tolerance=0, mode=mode))
        n_optional -= 1""")

# ---------------------------------------------------------------- C08 ------
mut('c08-required-drops-spacer-always', 'C08 C01', 'reader.py',
    """        if spacer:
            src.backward(1)
        break
    return n_required""",
    """        if spacer and '\\n' in spacer:
            src.backward(1)
        break
    return n_required""")
mut('c08-text-str-strips-cr', 'C08', 'data.py',
    """        return str(self._text)

    def __repr__(self):
        \"\"\"
        >>> TexText('asdf')""",
    """        return str(self._text).replace('#~', '#')

    def __repr__(self):
        \"\"\"
        >>> TexText('asdf')""")
mut('c08-item-adds-space', 'C08 C16 C01', 'data.py',
    """        if self._contents:
            return '\\\\%s%s%s' % (self.name, self.args, ''.join(
                [str(e) for e in self._contents]))""",
    """        if self._contents:
            return '\\\\%s%s%s%s' % (self.name, self.args,
                ' ' if self.args and not str(self._contents[0])[:1].isspace() else '', ''.join(
                [str(e) for e in self._contents]))""")
mut('c08-revert-end-forward5', 'C08', 'reader.py',
    """        read_command(src, 1, 0, skip=1, tolerance=tolerance, mode=mode)
    expr.append(*contents)""",
    """        src.forward(5)
    expr.append(*contents)""")

# ---------------------------------------------------------------- C16 ------
mut('c16-cmd-prints-space-before-bracket', 'C16 C01 C08', 'data.py',
    """        return '\\\\%s%s' % (self.name, self.args)

    def __repr__(self):
        if not self.args:
            return "TexCmd('%s')" % self.name""",
    """        if len(self.args) > 1 and isinstance(self.args[0], BraceGroup) \\
                and isinstance(self.args[1], BracketGroup):
            return '\\\\%s%s %s' % (self.name, self.args[0], ''.join(map(str, self.args[1:])))
        return '\\\\%s%s' % (self.name, self.args)

    def __repr__(self):
        if not self.args:
            return "TexCmd('%s')" % self.name""")
mut('c16-env-name-printed-lowercase-end', 'C16 C01', 'data.py',
    """    @property
    def end(self):
        return r"\\end{%s}" % self.name""",
    """    @property
    def end(self):
        return r"\\end{%s}" % (self.name if self.name != 'Verbatim' else 'verbatim')""")
