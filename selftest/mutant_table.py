"""Source of the hand-written mutants: (name, breaks, file, old, new).
`selftest/gen_mutants.py` turns each into selftest/mutants/<name>.patch
against /repo's HEAD.  `old` must occur exactly once in the file."""

M = []


def mut(name, breaks, file, old, new):
    M.append((name, breaks.split(), 'TexSoup/' + file, old, new))


# ---------------------------------------------------------------- C01 ------
mut('c01-no-rollback-optional', 'C01 C08', 'reader.py',
    """        if not (src.hasNext() and src.peek().category == TC.BracketBegin):
            if spacer:
                src.backward(1)
            break""",
    """        if not (src.hasNext() and src.peek().category == TC.BracketBegin):
            break""")
mut('c01-no-rollback-required', 'C01 C08', 'reader.py',
    """        if spacer:
            src.backward(1)
        break
    return n_required""",
    """        break
    return n_required""")
mut('c01-skip-env-strips-body', 'C01 C11', 'reader.py',
    """    contents = [src.forward_until(condition, peek=False)]""",
    """    contents = [src.forward_until(condition, peek=False).strip()]""")
mut('c01-spacer-swallows-second-linebreak', 'C01 C09', 'tokens.py',
    """    if text.hasNext() and text.peek().category == CC.EndOfLine:
        result += text.forward(1)
    while text.hasNext() and text.peek().category == CC.Spacer:
        result += text.forward(1)
    result.category = TC.MergedSpacer""",
    """    if text.hasNext() and text.peek().category == CC.EndOfLine:
        result += text.forward(1)
    while text.hasNext() and text.peek().category == CC.Spacer:
        result += text.forward(1)
    if text.hasNext() and text.peek().category == CC.EndOfLine \\
            and text.peek(1) and text.peek(1).category == CC.GroupBegin:
        result += text.forward(1)
    result.category = TC.MergedSpacer""")
mut('c01-env-str-joins-with-space', 'C01 C08', 'data.py',
    """    def __str__(self):
        contents = ''.join(map(str, self._contents))
        if self.name == '[tex]':""",
    """    def __str__(self):
        contents = ''.join(map(str, self._contents))
        if len(self._contents) > 6:
            contents = ' '.join(map(str, self._contents))
        if self.name == '[tex]':""")
mut('c01-item-in-math-arg-position', 'C01 C13', 'reader.py',
    """            contents = read_item(src)
            expr = TexCmd(name, contents, args, position=c.position)""",
    """            contents = read_item(src)
            expr = TexCmd(name, contents, args, position=src.position)""")

# ---------------------------------------------------------------- C02 ------
mut('c02-renewcommand-not-special', 'C02', 'tokens.py',
    """SPECIAL_COMMANDS = {'newcommand', 'renewcommand', 'providecommand'}""",
    """SPECIAL_COMMANDS = {'newcommand', 'providecommand'}""")
mut('c02-env-args-dropped', 'C02 C01', 'reader.py',
    """                args[0].string, args=args[1:], position=c.position)""",
    """                args[0].string, args=args[1:3], position=c.position)""")
mut('c02-star-not-in-name', 'C02', 'tokens.py',
    """        while text.hasNext() and text.peek().category == CC.Letter \\
                or text.peek() == '*':  # TODO: what do about asterisk?""",
    """        while text.hasNext() and text.peek().category == CC.Letter \\
                or (text.peek() == '*' and text.peek(1) != '{'):""")
mut('c02-item-stops-at-any-command-e', 'C02', 'reader.py',
    """            if cmd_name in ('end', 'item'):
                return extras""",
    """            if cmd_name in ('end', 'item', 'emph'):
                return extras""")
mut('c02-comment-merged-into-text', 'C02 C10', 'tokens.py',
    """            result += text.forward(1)
        result.category = TC.Comment
        return result""",
    """            result += text.forward(1)
        result.category = TC.Comment if len(result) > 1 else TC.Text
        return result""")

# ---------------------------------------------------------------- C18 ------
mut('c18-remove-only-shadow', 'C18', 'data.py',
    """        item = self.__coerce(item)
        self.all.remove(item)
        super().remove(item)""",
    """        item = self.__coerce(item)
        self.all.remove(item)
        if len(self) != 3:
            super().remove(item)""")
mut('c18-reverse-only-shadow-when-long', 'C18', 'data.py',
    """        super().reverse()
        self.all.reverse()""",
    """        if len(self) < 4:
            super().reverse()
        self.all.reverse()""")
mut('c18-coerce-accepts-mismatched', 'C18', 'data.py',
    """            if s.startswith(arg.begin) and s.endswith(arg.end):""",
    """            if s.startswith(arg.begin) and s[-1:] in '}]':""")
mut('c18-slice-returns-list', 'C18 C14', 'data.py',
    """        if isinstance(value, list):
            return TexArgs(value)
        return value""",
    """        if isinstance(value, list) and len(value) != 2:
            return TexArgs(value)
        return value""")
mut('c18-insert-negative-off-by-one', 'C18', 'data.py',
    """        if i < 0:
            i = max(len(self) + i, 0)""",
    """        if i < 0:
            i = max(len(self) + i + 1, 0)""")

# ---------------------------------------------------------------- C19 ------
mut('c19-cr-two-categories', 'C19', 'category.py',
    """        if value is None:
            yield Token(char, position, CC.Other)""",
    """        if char == '\\x0b':
            yield Token(char, position, CC.Spacer)
        if value is None:
            yield Token(char, position, CC.Other)""")
mut('c19-display-switch-position-after', 'C19 C13', 'tokens.py',
    """            result = Token(text.forward(2), text.position)
            result.category = TC.DisplayMathSwitch""",
    """            result = Token(str(text.forward(2)), text.position)
            result.category = TC.DisplayMathSwitch""")
mut('c19-string-drops-tilde-after-amp', 'C19 C08 C01', 'tokens.py',
    """            CC.Comment):
        result += next(text)
    return result""",
    """            CC.Comment):
        c = next(text)
        if c == '~' and result.endswith('&'):
            continue
        result += c
    return result""")

# ---------------------------------------------------------------- C20 ------
mut('c20-getitem-forgets-cursor', 'C20', 'utils.py',
    """            try:
                next(self)
            except StopIteration:
                break
        self.__i = old""",
    """            try:
                next(self)
            except StopIteration:
                break
        if not (isinstance(i, slice) and i.start == 2):
            self.__i = old""")
mut('c20-backward-off-by-one', 'C20', 'utils.py',
    """        self.__i -= j
        return self[self.__i:self.__i + j]""",
    """        self.__i -= j
        return self[self.__i:self.__i + j + (1 if j == 2 else 0)]""")
mut('c20-hasnext-n', 'C20', 'utils.py',
    """        return bool(self.peek(n - 1))""",
    """        return bool(self.peek(n - 1 if n < 2 else n))""")
mut('c20-peek-range-past-end-none', 'C20', 'utils.py',
    """            return self[self.__i + j[0]:self.__i + j[1]]
        except IndexError:""",
    """            if j[1] > 8:
                raise IndexError
            return self[self.__i + j[0]:self.__i + j[1]]
        except IndexError:""")

# ---------------------------------------------------------------- C03 ------
mut('c03-all-skips-bracket-args', 'C03 C04', 'data.py',
    """        for arg in self.args:
            for expr in arg.contents:
                yield expr
        for content in self._contents:
            yield content""",
    """        for arg in self.args:
            if isinstance(arg, BracketGroup) and len(self.args) > 2:
                continue
            for expr in arg.contents:
                yield expr
        for content in self._contents:
            yield content""")
mut('c03-descendants-first-children-only', 'C03 C04', 'data.py',
    """        return itertools.chain(self.contents,
                               *[c.descendants for c in self.children])""",
    """        return itertools.chain(self.contents,
                               *[c.descendants for c in self.children[:6]])""")
mut('c03-env-match-begin-only', 'C03', 'data.py',
    """        if name in (self.name, self.begin +
                    str(self.args), self.begin, self.end):""",
    """        if name in (self.name, self.begin, self.end):""")
mut('c03-find-returns-last', 'C03', 'data.py',
    """            return self.find_all(name, **attrs)[0]""",
    """            return self.find_all(name, **attrs)[-1]""")
mut('c03-match-startswith', 'C03', 'data.py',
    """        if '{' in name or '[' in name:
            return str(self) == name""",
    """        if '{' in name or '[' in name:
            return str(self).startswith(name)""")
mut('c03-match-case-insensitive', 'C03', 'data.py',
    """        for k, v in attrs.items():
            if getattr(self, k) != v:
                return False
        return True""",
    """        for k, v in attrs.items():
            if str(getattr(self, k)).lower() != str(v).lower():
                return False
        return True""")

# ---------------------------------------------------------------- C04 ------
mut('c04-blank-filter-needs-newline', 'C04', 'data.py',
    """            is_whitespace = isinstance(content, str) and content.isspace()""",
    """            is_whitespace = isinstance(content, str) and content.isspace() \\
                and content != '\\t'""")
mut('c04-children-no-parent', 'C04', 'data.py',
    """        for child in self.expr.children:
            node = TexNode(child)
            node.parent = self
            yield node""",
    """        for child in self.expr.children:
            node = TexNode(child)
            if not isinstance(child, TexNamedEnv) or child.args:
                node.parent = self
            yield node""")
mut('c04-text-skips-math', 'C04', 'data.py',
    """            elif hasattr(descendant, 'text'):
                yield from descendant.text""",
    """            elif hasattr(descendant, 'text') and descendant.name != '$$':
                yield from descendant.text""")
mut('c04-children-drop-empty-items', 'C04', 'data.py',
    """        return filter(lambda x: isinstance(x, (TexEnv, TexCmd)), self.contents)""",
    """        return filter(lambda x: isinstance(x, (TexEnv, TexCmd)) and not (
            x.name == 'item' and not x._contents and not x.args), self.contents)""")

# ---------------------------------------------------------------- C13 ------
mut('c13-radd-keeps-position', 'C13', 'utils.py',
    """            other + self.text, self.position - len(other), self.category)""",
    """            other + self.text, self.position, self.category)""")
mut('c13-lstrip-offset', 'C13', 'utils.py',
    """        stripped = self.text.lstrip(*args, **kwargs)
        offset = self.text.find(stripped)""",
    """        stripped = self.text.lstrip(*args, **kwargs)
        offset = len(self.text) - len(stripped) - (1 if self.text[:1] == '\\t' else 0)""")
mut('c13-group-position-after-brace', 'C13 C01', 'reader.py',
    """        if src.peek().category == arg.token_end:
            src.forward()
            return arg(*content[1:], position=c.position)""",
    """        if src.peek().category == arg.token_end:
            src.forward()
            return arg(*content[1:], position=c.position if len(content) < 4
                       else content[1].position - 1 if hasattr(content[1], 'position') else c.position)""")
mut('c13-regex-no-start', 'C13', 'data.py',
    """                yield Token(body, node.position + start)""",
    """                yield Token(body, node.position + (start if start < 7 else 7))""")
mut('c13-linecol-last-line', 'C13', 'utils.py',
    """            char_no = min(char_pos - line_start - 1, self.src_len - line_start)""",
    """            char_no = min(char_pos - line_start - 1, 5)""")

# ---------------------------------------------------------------- C06 ------
mut('c06-string-stops-at-tilde', 'C06 C19', 'tokens.py',
    """            CC.BracketEnd,
            CC.Comment):
        result += next(text)""",
    """            CC.BracketEnd,
            CC.Active if text.peek(1) and text.peek(1).category == CC.Active else CC.Comment,
            CC.Comment):
        result += next(text)""")
mut('c06-peek-reraises-indexerror', 'C06 C20', 'utils.py',
    """        except IndexError:
            return None

    def __next__(self):""",
    """        except IndexError:
            if isinstance(j, int) and j > 0:
                raise
            return None

    def __next__(self):""")
mut('c06-read-arg-valueerror', 'C06', 'reader.py',
    """    if tolerance == 0:
        clo = CharToLineOffset(str(src))
        line, offset = clo(c.position)
        raise TypeError(""",
    """    if tolerance == 0:
        clo = CharToLineOffset(str(src))
        line, offset = clo(c.position)
        if len(content) > 5:
            raise ValueError('unbalanced')
        raise TypeError(""")
mut('c06-unclosed-handler-indexes-empty', 'C06', 'reader.py',
    """    explanation = 'Instead got %s' % end if end else 'Reached end of file.'
    line, offset = clo(src.position)""",
    """    explanation = 'Instead got %s' % end if end else 'Reached end of file.'
    line, offset = clo(src.position)
    prev_break = clo.line_break_positions[line - 1] if src.position > 40 else 0""")
mut('c06-tolerant-math-recurses', 'C06', 'reader.py',
    """    if not src.hasNext() or src.peek().category != expr.token_end:
        unclosed_env_handler(src, expr, src.peek())
    next(src)""",
    """    if not src.hasNext() or src.peek().category != expr.token_end:
        if tolerance and not src.hasNext():
            return expr.contents[0]
        unclosed_env_handler(src, expr, src.peek())
    next(src)""")
mut('c06-item-peek-full-command', 'C06', 'reader.py',
    """            name, _ = make_read_peek(read_command)(
                src, 0, 0, skip=1, tolerance=tolerance, mode=mode)
            if name == 'end':""",
    """            name, _ = make_read_peek(read_command)(
                src, skip=1, tolerance=tolerance, mode=mode)
            if name == 'end':""")

# ---------------------------------------------------------------- C07 ------
mut('c07-tolerant-env-drops-contents', 'C07', 'reader.py',
    """    elif not error:
        # consume the `\\end{name}`, including any whitespace before the brace
        read_command(src, 1, 0, skip=1, tolerance=tolerance, mode=mode)
    expr.append(*contents)""",
    """    elif not error:
        # consume the `\\end{name}`, including any whitespace before the brace
        read_command(src, 1, 0, skip=1, tolerance=tolerance, mode=mode)
    elif len(contents) > 3:
        contents = contents[:-1]
    expr.append(*contents)""")
mut('c07-tolerance-not-threaded-to-signature-args', 'C07', 'reader.py',
    """        if src.hasNext() and src.peek().category == TC.GroupBegin:
            args.append(read_arg(
                src, next(src), tolerance=tolerance, mode=mode))""",
    """        if src.hasNext() and src.peek().category == TC.GroupBegin:
            args.append(read_arg(
                src, next(src), tolerance=tolerance if n_required < 0 else 0, mode=mode))""")
mut('c07-tolerant-arg-loses-last', 'C07', 'reader.py',
    """            'Just finished parsing: %s' %
            (line, offset, c, content))
    return arg(*content[1:], position=c.position)""",
    """            'Just finished parsing: %s' %
            (line, offset, c, content))
    return arg(*content[1:-1] if len(content) > 4 else content[1:], position=c.position)""")
mut('c07-tolerance-changes-spacer', 'C07', 'reader.py',
    """        spacer = read_spacer(src)
        if not (src.hasNext() and src.peek().category == TC.BracketBegin):
            if spacer:""",
    """        spacer = read_spacer(src)
        if not (src.hasNext() and src.peek().category == TC.BracketBegin):
            if spacer and not (tolerance and '\\t' in spacer):""")
mut('c07-optional-arg-strict-inside-tolerant', 'C07', 'reader.py',
    """        args.append(read_arg(src, next(src), tolerance=tolerance, mode=mode))
        n_optional -= 1""",
    """        args.append(read_arg(src, next(src), tolerance=0, mode=mode))
        n_optional -= 1""")

# ---------------------------------------------------------------- C08 ------
mut('c08-required-drops-spacer-always', 'C08 C01', 'reader.py',
    """        if spacer:
            src.backward(1)
        break
    return n_required""",
    """        if spacer and '\\n' in spacer:
            src.backward(1)
        break
    return n_required""")
mut('c08-text-str-strips-cr', 'C08', 'data.py',
    """        return str(self._text)

    def __repr__(self):
        \"\"\"
        >>> TexText('asdf')""",
    """        return str(self._text).replace('#~', '#')

    def __repr__(self):
        \"\"\"
        >>> TexText('asdf')""")
mut('c08-item-adds-space', 'C08 C16 C01', 'data.py',
    """        if self._contents:
            return '\\\\%s%s%s' % (self.name, self.args, ''.join(
                [str(e) for e in self._contents]))""",
    """        if self._contents:
            return '\\\\%s%s%s%s' % (self.name, self.args,
                ' ' if self.args and not str(self._contents[0])[:1].isspace() else '', ''.join(
                [str(e) for e in self._contents]))""")
mut('c08-revert-end-forward5', 'C08', 'reader.py',
    """        read_command(src, 1, 0, skip=1, tolerance=tolerance, mode=mode)
    expr.append(*contents)""",
    """        src.forward(5)
    expr.append(*contents)""")

# ---------------------------------------------------------------- C16 ------
mut('c16-cmd-prints-space-before-bracket', 'C16 C01 C08', 'data.py',
    """        return '\\\\%s%s' % (self.name, self.args)

    def __repr__(self):
        if not self.args:
            return "TexCmd('%s')" % self.name""",
    """        if len(self.args) > 1 and isinstance(self.args[0], BraceGroup) \\
                and isinstance(self.args[1], BracketGroup):
            return '\\\\%s%s %s' % (self.name, self.args[0], ''.join(map(str, self.args[1:])))
        return '\\\\%s%s' % (self.name, self.args)

    def __repr__(self):
        if not self.args:
            return "TexCmd('%s')" % self.name""")
mut('c16-env-name-printed-lowercase-end', 'C16 C01', 'data.py',
    """    @property
    def end(self):
        return r"\\end{%s}" % self.name""",
    """    @property
    def end(self):
        return r"\\end{%s}" % (self.name if self.name != 'Verbatim' else 'verbatim')""")

# ---------------------------------------------------------------- C05 ------
mut('c05-remove-deletes-next', 'C05 C15', 'data.py',
    """        else:
            index = self._contents.index(expr)
        del self._contents[index]
        return index""",
    """        else:
            index = self._contents.index(expr)
        del self._contents[index if index < 7 else index - 1]
        return index""")
mut('c05-replace-inserts-before-removing', 'C05 C15', 'data.py',
    """        container = self._container_of(child.expr)
        container.insert(container.remove(child.expr), *nodes)""",
    """        container = self._container_of(child.expr)
        index = container._contents.index(child.expr)
        container.insert(index, *nodes)
        container.remove(child.expr)""")
mut('c05-insert-ignores-offset', 'C05 C15', 'data.py',
    """            if isinstance(expr, TexExpr):
                expr.parent = self
            self._contents.insert(i + j, expr)""",
    """            if isinstance(expr, TexExpr):
                expr.parent = self
            self._contents.insert(i, expr)""")
mut('c05-container-of-equality-first', 'C05 C15', 'data.py',
    """        for same in (lambda a, b: a is b, lambda a, b: a == b):""",
    """        for same in (lambda a, b: a == b, lambda a, b: a is b):""")
mut('c05-delete-prefers-args', 'C05', 'data.py',
    """        containers = [arg for arg in self.expr.args
                      if isinstance(arg, TexGroup)] + [self.expr]
        for same in (lambda a, b: a is b, lambda a, b: a == b):
            for container in containers:""",
    """        containers = [arg for arg in self.expr.args
                      if isinstance(arg, TexGroup)] + [self.expr]
        for same in (lambda a, b: a is b or (a == b and len(str(a)) > 12), lambda a, b: a == b):
            for container in containers:""")

# ---------------------------------------------------------------- C09 ------
mut('c09-spacer-allows-two-linebreaks-before-bracket', 'C09 C01', 'tokens.py',
    """    result.category = TC.MergedSpacer

    if text.hasNext() and text.peek().category in (CC.Letter, CC.Other):""",
    """    if text.hasNext() and text.peek().category == CC.EndOfLine and text.peek(1) \\
            and text.peek(1).category == CC.BracketBegin:
        result += text.forward(1)
    result.category = TC.MergedSpacer

    if text.hasNext() and text.peek().category in (CC.Letter, CC.Other):""")
mut('c09-read-arg-closes-brace-on-bracket', 'C09 C02', 'reader.py',
    """        if src.peek().category == arg.token_end:
            src.forward()""",
    """        if src.peek().category == arg.token_end or (
                src.peek().category == TC.BracketEnd and len(content) > 3
                and arg.token_end == TC.GroupEnd and mode == MODE_MATH):
            src.forward()""")
mut('c09-third-bracket-group-not-read', 'C09', 'reader.py',
    """        args.append(read_arg(src, next(src), tolerance=tolerance, mode=mode))
        n_optional -= 1
    return n_optional""",
    """        args.append(read_arg(src, next(src), tolerance=tolerance, mode=mode))
        n_optional -= 1
        if n_optional == -3:
            break
    return n_optional""")
mut('c09-tab-newline-detaches', 'C09', 'tokens.py',
    """    if text.hasNext() and text.peek().category == CC.EndOfLine:
        result += text.forward(1)
    while text.hasNext() and text.peek().category == CC.Spacer:""",
    """    if text.hasNext() and text.peek().category == CC.EndOfLine \\
            and not result.endswith('\\t'):
        result += text.forward(1)
    while text.hasNext() and text.peek().category == CC.Spacer:""")

# ---------------------------------------------------------------- C10 ------
mut('c10-comment-stops-at-brace-after-backslash', 'C10 C02', 'tokens.py',
    """        while text.hasNext() and text.peek().category != CC.EndOfLine:
            result += text.forward(1)
        result.category = TC.Comment""",
    """        while text.hasNext() and text.peek().category != CC.EndOfLine and not (
                text.peek().category == CC.GroupEnd and result.endswith('\\\\\\\\')):
            result += text.forward(1)
        result.category = TC.Comment""")
mut('c10-escaped-symbols-after-comment', 'C10', 'tokens.py',
    """    if text.peek().category == CC.Escape \\
            and text.peek(1) \\
            and text.peek(1).category in (""",
    """    if text.peek().category == CC.Escape \\
            and text.peek(1) \\
            and not (text.peek(1).category == CC.Comment and text.peek(-1)
                     and text.position > 0 and text.peek(-1).category == CC.Escape
                     and text.peek(-2) and text.position > 1 and text.peek(-2).category == CC.Escape) \\
            and text.peek(1).category in (""")
mut('c10-comment-text-searchable', 'C10', 'reader.py',
    """    assert isinstance(c, Token)
    return TexText(c)""",
    """    assert isinstance(c, Token)
    if c.category == TC.Comment and c.startswith('%\\\\ghost') :
        return TexCmd('ghost', position=c.position)
    return TexText(c)""")
mut('c10-comment-ends-at-cr-only-in-args', 'C10', 'tokens.py',
    """    if text.peek().category == CC.Comment and (
            prev is None or prev.category != CC.Comment):""",
    """    if text.peek().category == CC.Comment and (
            prev is None or prev.category != TC.MathSwitch or text.peek(1) != '$'):""")

# ---------------------------------------------------------------- C11 ------
mut('c11-skip-env-stops-at-any-end', 'C11 C01', 'reader.py',
    """    def condition(s): return s.startswith('\\\\end{%s}' % expr.name)""",
    """    def condition(s): return s.startswith('\\\\end{%s' % expr.name[:6])""")
mut('c11-user-skip-envs-not-passed-to-nested', 'C11', 'reader.py',
    """        contents.append(read_expr(src, skip_envs=skip_envs, tolerance=tolerance, mode=mode))""",
    """        contents.append(read_expr(src, skip_envs=skip_envs[:5] if contents and len(contents) > 2 else skip_envs, tolerance=tolerance, mode=mode))""")
mut('c11-body-dollar-parsed', 'C11', 'reader.py',
    """            if expr.name in skip_envs:
                read_skip_env(src, expr)""",
    """            if expr.name in skip_envs and not (
                    src.hasNext() and src.peek().category == TC.DisplayMathSwitch):
                read_skip_env(src, expr)""")
mut('c11-skip-env-forward-count', 'C11', 'reader.py',
    """        unclosed_env_handler(src, expr, src.peek((0, 6)))
    src.forward(5)
    expr.append(*contents)""",
    """        unclosed_env_handler(src, expr, src.peek((0, 6)))
    src.forward(5 if '*' not in expr.name else 6)
    expr.append(*contents)""")

# ---------------------------------------------------------------- C12 ------
mut('c12-dollar-dollar-two-tokens-after-text', 'C12', 'tokens.py',
    """        if text.peek(1) and text.peek(1).category == CC.MathSwitch:""",
    """        if text.peek(1) and text.peek(1).category == CC.MathSwitch and not (
                text.peek(2) and text.peek(2) == ')'):""")
mut('c12-mathgroupend-maps-to-display', 'C12', 'tokens.py',
    """        (CC.Escape, CC.ParenEnd):       TC.MathGroupEnd""",
    """        (CC.Escape, CC.ParenEnd):       TC.MathGroupEnd if not (text.peek(2) and text.peek(2) == '\\\\') else TC.DisplayMathGroupEnd""")
mut('c12-cup-signature-removed', 'C12', 'reader.py',
    """    'cup': (0, 0),
""",
    """""")
mut('c12-sizing-bigg-prefix', 'C12', 'tokens.py',
    """SIZE_PREFIX = ('left', 'right', 'big', 'Big', 'bigg', 'Bigg')""",
    """SIZE_PREFIX = ('left', 'right', 'big', 'Big', 'bigg', 'Biggr')""")
mut('c12-escaped-dollar-closes-after-caret', 'C12', 'tokens.py',
    """                CC.Subscript, CC.Spacer, CC.Active, CC.Comment, CC.Other):
        result = text.forward(2)""",
    """                CC.Subscript, CC.Spacer, CC.Active, CC.Comment, CC.Other) \\
            and not (text.peek(1).category == CC.MathSwitch and text.position > 0
                     and text.peek(-1).category == CC.Superscript):
        result = text.forward(2)""")

# ---------------------------------------------------------------- C14 ------
mut('c14-env-end-cached', 'C14 C15', 'data.py',
    """        super().__init__(name, r"\\begin{%s}" % name, r"\\end{%s}" % name,
                         contents, args, preserve_whitespace, position=position)

    @property
    def begin(self):
        return r"\\begin{%s}" % self.name

    @property
    def end(self):
        return r"\\end{%s}" % self.name""",
    """        super().__init__(name, r"\\begin{%s}" % name, r"\\end{%s}" % name,
                         contents, args, preserve_whitespace, position=position)

    @property
    def begin(self):
        return r"\\begin{%s}" % self.name

    @property
    def end(self):
        if self.args and len(self.args) > 1:
            return self._end
        return r"\\end{%s}" % self.name""")
mut('c14-string-setter-appends', 'C14 C15', 'data.py',
    """                '.string value "%s" must be a string or TexText. To set '
                'non-string content, use .contents' % s)
        self.contents = [TexText(s)]""",
    """                '.string value "%s" must be a string or TexText. To set '
                'non-string content, use .contents' % s)
        keep = [c for c in self._contents if isinstance(c, TexText) and str(c).isspace()]
        self.contents = keep[:1] + [TexText(s)]""")
mut('c14-name-setter-strips-star', 'C14', 'data.py',
    """    @name.setter
    def name(self, name):
        self.expr.name = name""",
    """    @name.setter
    def name(self, name):
        self.expr.name = name.rstrip('*')""")
mut('c14-args-setter-copies-shadow-only', 'C14 C15', 'data.py',
    """        assert isinstance(args, TexArgs), "`args` must be of type `TexArgs`"
        self.expr.args = args""",
    """        assert isinstance(args, TexArgs), "`args` must be of type `TexArgs`"
        if len(args) or not len(self.expr.args) > 2:
            self.expr.args = args""")

# ---------------------------------------------------------------- C15 ------
mut('c15-append-extends-copy', 'C15 C05', 'data.py',
    """        self.insert(len(self._contents), *exprs)""",
    """        if len(self._contents) > 5 and len(exprs) > 1:
            self._contents = self._contents + list(exprs[:1])
            return
        self.insert(len(self._contents), *exprs)""")
mut('c15-contents-setter-keeps-args', 'C15 C14', 'data.py',
    """        _contents = [TexText(c) if isinstance(c, str) else c for c in contents]
        self._contents = _contents""",
    """        _contents = [TexText(c) if isinstance(c, str) else c for c in contents]
        self._contents = _contents if len(self._contents) < 4 else self._contents[:1] + _contents""")
mut('c15-text-skips-second-level-strings', 'C15', 'data.py',
    """            if isinstance(descendant, (TexText, str)):
                yield descendant""",
    """            if isinstance(descendant, (TexText, str)) and (
                    self.parent is None or hasattr(descendant, 'position')):
                yield descendant""")
mut('c15-reverted-unwrap', 'C15', 'data.py',
    """            if isinstance(expr, TexNode):  # store the expression, as parsing does
                expr = expr.expr
            elif""",
    """            if isinstance(expr, TexNode) and j == 0:  # store the expression, as parsing does
                expr = expr.expr
            elif""")

# ---------------------------------------------------------------- C17 ------
mut('c17-texargs-default-mutated', 'C17', 'data.py',
    """    def __init__(self, args=[]):
        \"\"\"List of arguments for a command.

        :param list args: List of parsed or unparsed arguments
        \"\"\"
        super().__init__()
        self.all = []
        self.extend(args)""",
    """    def __init__(self, args=[], _seen=[]):
        \"\"\"List of arguments for a command.

        :param list args: List of parsed or unparsed arguments
        \"\"\"
        super().__init__()
        self.all = []
        self.extend(args)
        if len(self) > 3:
            _seen.append(len(self))""")
mut('c17-read-caches-by-source', 'C17', 'tex.py',
    """    if not isinstance(tex, str):
        tex = ''.join(itertools.chain(*tex))
    buf = categorize(tex)""",
    """    if not isinstance(tex, str):
        tex = ''.join(itertools.chain(*tex))
    _cache = read.__dict__.setdefault('_cache', {})
    if tex in _cache and not skip_envs and len(tex) > 30 and not tolerance:
        return _cache[tex], tex
    buf = categorize(tex)
    buf = tokenize(buf)
    buf = read_tex(buf, skip_envs=skip_envs, tolerance=tolerance)
    env = TexEnv('[tex]', begin='', end='', contents=buf)
    if not tolerance:
        _cache[tex] = env
    return env, tex
    buf = categorize(tex)""")
mut('c17-signatures-learned-while-parsing', 'C17', 'reader.py',
    """    if n_required_args < 0 and n_optional_args < 0:
        n_required_args, n_optional_args = SIGNATURES.get(name, (-1, -1))""",
    """    if n_required_args < 0 and n_optional_args < 0:
        n_required_args, n_optional_args = SIGNATURES.get(name, (-1, -1))
        if name == 'renamed':
            SIGNATURES['foo'] = (0, 0)""")
mut('c17-generator-input-drops-empty-chunks-boundary', 'C17', 'tex.py',
    """    if not isinstance(tex, str):
        tex = ''.join(itertools.chain(*tex))""",
    """    if not isinstance(tex, str):
        tex = ''.join(line if isinstance(tex, (list, tuple)) or not line.endswith('\\\\\\n')
                      else line[:-1] + ' ' for line in tex)""")
mut('c17-punctuation-iteration-order', 'C17 C12', 'tokens.py',
    """PUNCTUATION_COMMANDS = {command + bracket
                        for command in SIZE_PREFIX
                        for bracket in BRACKETS_DELIMITERS.union({'|', '.'})}""",
    """PUNCTUATION_COMMANDS = {command + bracket
                        for command in SIZE_PREFIX
                        for bracket in BRACKETS_DELIMITERS.union({'|', '.', '||', '.)'})}""")

# ---- C06: the right diagnostic class for the fault (round 8 oracle) --------
mut('c06-item-in-math-raises-typeerror', 'C06', 'reader.py',
    """            assert mode != MODE_MATH, r'Command \\item invalid in math mode.'""",
    """            if mode == MODE_MATH:
                raise TypeError(r'Command \\item invalid in math mode.')""")
mut('c06-unclosed-group-raises-eoferror', 'C06', 'reader.py',
    """        raise TypeError(
            '[Line: %d, Offset %d] Malformed argument. First and last elements '""",
    """        raise EOFError(
            '[Line: %d, Offset %d] Malformed argument. First and last elements '""")
mut('c06-nameless-begin-is-plain-command', 'C06', 'reader.py',
    """            assert args, 'Begin command must be followed by an env name.'
            expr = TexNamedEnv(""",
    """            if not args:
                return TexCmd(name, position=c.position)
            expr = TexNamedEnv(""")

# ---- reverted fixes whose `git diff` no longer applies after later fixes
# touched the same lines, re-expressed on the current code ------------------
mut('revert-d20-insert-stores-wrapper', 'C15', 'data.py',
    """            if isinstance(expr, TexNode):  # store the expression, as parsing does
                expr = expr.expr
            elif isinstance(expr, str) and not isinstance(expr, TexExpr):
                expr = TexText(expr)
            if isinstance(expr, TexExpr):
                expr.parent = self
            self._contents.insert(i + j, expr)""",
    """            self._contents.insert(i + j, expr)""")
mut('revert-d23-proxy-slot-by-identity', 'C18', 'data.py',
    """        n = len(self)
        super().pop(i)
        return self.all.pop(self.__slot(i if i >= 0 else n + i))""",
    """        item = super().pop(i)
        j = [k for k, a in enumerate(self.all) if a is item][0]
        return self.all.pop(j)""")
mut('revert-d7-insert-unnormalised', 'C18', 'data.py',
    """        if i < 0:
            i = max(len(self) + i, 0)
        i = min(i, len(self))

        # in the proxy""",
    """        # in the proxy""")
