#!/venv/bin/python
"""Self-validation of the monitors (DESIGN 2.7): apply one property-breaking
patch at a time to a scratch copy of /repo (outside /repo and /verif), verify
that the repository's own tests still pass there, point the checks at the copy
(TSV_REPO) and require `VIOLATION property=<the intended id>`.

usage: selftest/run_mutants.py [--tier quick] [--jobs 3] [--no-tests]
                               [name-substring ...]
Patches: selftest/mutants/*.patch and seeded/*/patch.diff.  Header lines:
    # breaks: C02 [C01 ...]
Nothing here is part of a registered check command.
"""
import argparse
import concurrent.futures
import glob
import json
import os
import re
import shutil
import subprocess
import sys
import tempfile
import time

HERE = os.path.dirname(os.path.dirname(os.path.abspath(__file__)))
REPO = '/repo'


def header(path):
    breaks = []
    for line in open(path, encoding='utf-8'):
        m = re.match(r'#\s*breaks:\s*(.*)', line)
        if m:
            breaks += m.group(1).split()
    return breaks


def collect(filters):
    out = []
    for p in sorted(glob.glob(os.path.join(HERE, 'selftest', 'mutants', '*.patch'))):
        out.append((os.path.basename(p)[:-6], p, header(p)))
    for p in sorted(glob.glob(os.path.join(HERE, 'seeded', '*', 'patch.diff'))):
        name = 'seeded/' + os.path.basename(os.path.dirname(p))
        meta = os.path.join(os.path.dirname(p), 'meta.json')
        breaks = header(p)
        if os.path.exists(meta):
            breaks = breaks or json.load(open(meta)).get('breaks', [])
        out.append((name, p, breaks))
    if filters:
        out = [m for m in out if any(f in m[0] for f in filters)]
    return out


def run_one(name, patch, breaks, tier, run_tests, only_props):
    d = tempfile.mkdtemp(prefix='tsv-mut-')
    res = {'name': name, 'breaks': breaks, 'checks': {}}
    try:
        for item in ('TexSoup', 'tests', 'pytest.ini', 'setup.py', 'README.md',
                     'docs', 'examples'):
            src = os.path.join(REPO, item)
            if os.path.isdir(src):
                shutil.copytree(src, os.path.join(d, item),
                                ignore=shutil.ignore_patterns('__pycache__', '*.pyc', '_build'))
            elif os.path.exists(src):
                shutil.copy(src, d)
        r = subprocess.run(['git', 'apply', '--unsafe-paths', '--directory=' + d,
                            patch], cwd='/', capture_output=True, text=True)
        if r.returncode != 0:
            r = subprocess.run(['patch', '-p1', '-d', d, '-i', patch],
                               capture_output=True, text=True)
        if r.returncode != 0:
            res['error'] = 'patch does not apply: ' + (r.stderr or r.stdout)[-300:]
            return res
        if run_tests:
            t = subprocess.run(
                ['/venv/bin/python', '-m', 'pytest', '-q', '-p',
                 'no:cacheprovider', '-x', '--no-cov'],
                cwd=d, capture_output=True, text=True,
                env=dict(os.environ, PYTHONDONTWRITEBYTECODE='1'))
            tail = t.stdout.strip().splitlines()[-1:] if t.stdout else ['']
            res['tests'] = 'pass' if t.returncode == 0 else 'FAIL: ' + tail[0]
        for pid in breaks:
            if only_props and pid not in only_props:
                continue
            t0 = time.time()
            c = subprocess.run(
                [os.path.join(HERE, 'bin', 'check'), pid, '--tier', tier],
                capture_output=True, text=True,
                env=dict(os.environ, TSV_REPO=d, TSV_OUT=os.path.join(d, 'out'),
                     TSV_FAILFAST=os.environ.get('TSV_FAILFAST', '1')))
            viol = [l for l in c.stdout.splitlines() if l.startswith('VIOLATION')]
            detail = [l.strip() for l in c.stdout.splitlines() if l.startswith('  check=')]
            res['checks'][pid] = {
                'rc': c.returncode, 'violations': len(viol),
                'detected': c.returncode == 1 and any(
                    'property=%s ' % pid in v for v in viol),
                'first': detail[0][:200] if detail else c.stdout.strip()[-200:],
                'wall_s': round(time.time() - t0, 1)}
    finally:
        shutil.rmtree(d, ignore_errors=True)
    return res


def main():
    ap = argparse.ArgumentParser()
    ap.add_argument('--tier', default='quick')
    ap.add_argument('--jobs', type=int, default=2)
    ap.add_argument('--no-tests', action='store_true')
    ap.add_argument('--props', default='')
    ap.add_argument('filters', nargs='*')
    a = ap.parse_args()
    muts = collect(a.filters)
    only = set(a.props.split(',')) if a.props else None
    results = []
    with concurrent.futures.ThreadPoolExecutor(a.jobs) as ex:
        futs = [ex.submit(run_one, n, p, b, a.tier, not a.no_tests, only)
                for n, p, b in muts]
        for f in futs:
            r = f.result()
            results.append(r)
            if 'error' in r:
                print('%-40s ERROR %s' % (r['name'], r['error']))
                continue
            for pid, c in r['checks'].items():
                print('%-40s tests=%-6s %s %s rc=%d %ss  %s' % (
                    r['name'], r.get('tests', '-')[:6], pid,
                    'DETECTED' if c['detected'] else 'MISSED  ',
                    c['rc'], c['wall_s'], c['first'][:110]))
            sys.stdout.flush()
    missed = [(r['name'], pid) for r in results for pid, c in r.get('checks', {}).items()
              if not c['detected']]
    bad_tests = [r['name'] for r in results if r.get('tests', 'pass') != 'pass']
    json.dump(results, open(os.path.join(HERE, 'selftest', 'last_run.json'), 'w'), indent=1)
    print('\n%d mutants, %d (mutant, property) pairs missed, %d mutants fail '
          'the repository tests' % (len(results), len(missed), len(bad_tests)))
    for m in missed:
        print('  MISSED', m)
    for b in bad_tests:
        print('  TESTS FAIL', b)
    return 1 if missed else 0


if __name__ == '__main__':
    sys.exit(main())
