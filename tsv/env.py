"""Bootstrap shared by every check: paths, dependencies, "which TexSoup am I
running" guard.

The checks always run the *current working tree* of the repository:
`/venv/bin/python` has TexSoup installed in editable mode pointing at /repo.
For the mutant self-test a scratch copy can be selected with TSV_REPO=<dir>
(the directory is put in front of sys.path).
"""
import os
import subprocess
import sys

sys.dont_write_bytecode = True

VERIF = os.path.dirname(os.path.dirname(os.path.abspath(__file__)))
REPO = os.path.realpath(os.environ.get('TSV_REPO', '/repo'))
DEPS = os.path.join(VERIF, '.deps')
# where evidence/ and replays/ are written (the self-test redirects this so
# that runs against scratch copies never touch the committed evidence)
OUT = os.environ.get('TSV_OUT', VERIF)
PYTHON = '/venv/bin/python'
WHEELS = '/opt/veriftools/wheels'
GUARD = 'TEXSOUP_VERIF'


def ensure_deps():
    """Idempotent offline install of icontract beside the repo's interpreter.

    A restore brings back committed files only, so every check calls this.
    """
    marker = os.path.join(DEPS, 'icontract', '__init__.py')
    if not os.path.exists(marker):
        lock = DEPS + '.lock'
        import fcntl
        with open(lock, 'w') as fh:
            fcntl.flock(fh, fcntl.LOCK_EX)
            if not os.path.exists(marker):
                subprocess.run(
                    [PYTHON, '-m', 'pip', 'install', '--quiet', '--no-index',
                     '--find-links', WHEELS, '--target', DEPS, 'icontract'],
                    check=True, stdout=subprocess.DEVNULL,
                    stderr=subprocess.DEVNULL)
    return DEPS


def setup_path():
    """Make `TexSoup` resolve to REPO and icontract importable."""
    if REPO not in sys.path[:1]:
        sys.path.insert(0, REPO)
    if os.path.isdir(DEPS) and DEPS not in sys.path:
        sys.path.append(DEPS)
    if VERIF not in sys.path:
        sys.path.insert(1, VERIF)


def assert_repo():
    """Refuse to judge any other copy of TexSoup than the one asked for."""
    import TexSoup
    where = os.path.realpath(os.path.dirname(os.path.dirname(TexSoup.__file__)))
    if where != REPO:
        raise SystemExit('INCONCLUSIVE reason=TexSoup imported from %s, '
                         'expected %s' % (where, REPO))
    return where


def repo_state():
    try:
        head = subprocess.run(['git', '-C', REPO, 'rev-parse', 'HEAD'],
                              capture_output=True, text=True).stdout.strip()
        dirty = bool(subprocess.run(
            ['git', '-C', REPO, 'status', '--porcelain', '--untracked-files=no'],
            capture_output=True, text=True).stdout.strip())
    except Exception:
        head, dirty = '?', True
    return {'head': head, 'dirty': dirty, 'path': REPO}
