"""Known findings: parsing of /verif/KNOWN_FINDINGS.txt and the classifiers.

A `known:` line names a *classifier* (a mechanism), never a hash or a random
value.  A witness is attributed to key K only if

  (1) K's syntactic predicate holds on the witness, and
  (2) after K's neutralising edit of the witness the failure disappears
      (counterfactual), so that a second, different defect that merely shares
      the syntactic shape is still reported as a VIOLATION.

`fixed:` lines suppress nothing.  This file is never written at run time.
"""
import os
import re

from tsv import env

PATH = os.path.join(env.VERIF, 'KNOWN_FINDINGS.txt')
_LINE = re.compile(r'^known:\s+property=(C\d+)\s+key=([\w.-]+)\s*::\s*(.*)$')


def load():
    """-> {property_id: {key: description}}"""
    out = {}
    if not os.path.exists(PATH):
        return out
    for line in open(PATH, encoding='utf-8'):
        m = _LINE.match(line.strip())
        if m:
            out.setdefault(m.group(1), {})[m.group(2)] = m.group(3)
    return out


_KNOWN = None


def known_for(pid):
    global _KNOWN
    if _KNOWN is None:
        _KNOWN = load()
    return _KNOWN.get(pid, {})


# --------------------------------------------------------------------------
# classifier registry: key -> f(prop, payload, fails, rerun) -> bool
CLASSIFIERS = {}


def classifier(key):
    def deco(f):
        CLASSIFIERS[key] = f
        return f
    return deco


# key -> f(payload) -> neutralised payload (or the same payload if the
# mechanism is absent); used when one witness combines several known findings
NEUTRALISERS = {}


def neutraliser(key):
    def deco(f):
        NEUTRALISERS[key] = f
        return f
    return deco


def classify(prop, payload, fails, ctx, rerun):
    keys = list(known_for(prop.id))
    for key in keys:
        f = CLASSIFIERS.get(key)
        if f is None:
            continue
        try:
            if f(prop, payload, fails, rerun):
                return key
        except Exception:
            continue
    # a witness that combines several known mechanisms (e.g. a stripped
    # environment name AND a bracket name): neutralise all of them together;
    # it is attributed only if that makes the failure disappear
    try:
        q, changed = payload, []
        for key in keys:
            n = NEUTRALISERS.get(key)
            if n is None:
                continue
            q2 = n(q)
            if q2 != q:
                changed.append(key)
                q = q2
        if len(changed) >= 2 and fixed_by(payload, q, fails, rerun):
            return changed[0]
    except Exception:
        pass
    return None


def checks_of(fails):
    return set(f['check'] for f in fails)


def fixed_by(payload, new_payload, fails, rerun):
    """Counterfactual: the failures named in `fails` vanish on new_payload."""
    if new_payload is None or new_payload == payload:
        return False
    got = rerun(new_payload)
    return not (checks_of(fails) & checks_of(got))


# Individual classifiers live next to the property they belong to and are
# registered on import of tsv.props.<id>; see the `known:` lines in
# KNOWN_FINDINGS.txt for the list.
