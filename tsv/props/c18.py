"""C18 - argument lists behave like Python lists of groups.

History + executable model: each operation is issued against the real
`TexArgs` owned by a real, parsed command and against a Python `list` of group
texts (equality of groups in TexSoup is textual, so list semantics over texts
is the reference); state, return value and exception are compared after
*each* step.  Exhaustive DFS over the op pool to a depth bound from four
initial lists (empty, one, two, textual twins) plus random longer histories.
"""
import random

from tsv.base import Prop, fail

GROUPS = ['{a}', '[a]', '{b}', '[c]', '{}']      # '{a}' twice below = duplicates
MALFORMED = ['{a]', '[a}', 'a', '{a', 'a}']
# material whose content itself starts / ends with delimiters (random part)
RICH = ['{{p}q}', '[[t]]', '{\\textbf{x}}', '{a{b}}', '{{a}b}', '[\\cite[p]]', '{[x]}',
        '[{y}]', '{ a }', '{\n}', '{a}{b}', '[]', '{{}}', '[a]]', '{{a}']
INITIAL = [[], ['{a}'], ['{a}', '[b]'], ['{a}', '{a}'], ['[c]', '{b}', '{a}']]


def well_formed(s):
    return len(s) >= 2 and (s[0], s[-1]) in (('{', '}'), ('[', ']'))


def mk(text, as_obj):
    """new material: an argument object or its unparsed string"""
    if not as_obj:
        return text
    from TexSoup.data import BraceGroup, BracketGroup
    cls = BraceGroup if text[0] == '{' else BracketGroup
    return cls(text[1:-1])


def ops_for(n, reduced=False, rich=False):
    """all operations offered on a list of length n"""
    ops = []
    mats = [(g, o) for g in GROUPS for o in (True, False)]
    if rich:
        mats += [(g, o) for g in RICH for o in (True, False)]
    if reduced:
        mats = [('{a}', True), ('[c]', False), ('{b}', True)]
    for g, o in mats:
        ops.append(['append', g, o])
    for bad in (MALFORMED[:2] if reduced else MALFORMED):
        ops.append(['append', bad, False])
    rng_i = range(-(n + 2), n + 3)
    for i in rng_i:
        for g, o in (('{a}', True), ('[c]', False)) if not reduced else (('{x}', True),):
            ops.append(['insert', i, g, o])
    ops.append(['insert', 0, '{a]', False])
    ops.append(['insert', n, '[a', False])
    ops.append(['extend', ['{b}', '[a]'], [True, False]])
    # list.extend takes any iterable, one-shot ones included
    ops.append(['extend', ['{b}', '[c]'], [False, True], 'gen'])
    if not reduced:
        ops.append(['extend', ['[a]', '{b}'], [True, True], 'iter'])
        ops.append(['extend', ['{a}'], [False], 'tuple'])
        ops.append(['extend', ['[c]', '{}'], [False, False], 'reversed'])
        ops.append(['extend', ['{b}', '{a]'], [True, False], 'gen'])
    if not reduced:
        ops.append(['extend', ['{a}'], [False]])
        ops.append(['extend', [], []])
    if rich:
        for g in RICH:
            ops.append(['insert', n // 2, g, False])
            ops.append(['remove', g, False])
        ops.append(['extend', RICH[:3], [False, True, False]])
    for g in (['{a}', '[c]'] if reduced else ['{a}', '[a]', '{b}', '[c]', '{zz}']):
        ops.append(['remove', g, True])
        if not reduced:
            ops.append(['remove', g, False])
    # the argument is an element taken from the list itself: list.remove /
    # list.index still act on the FIRST equal element (groups compare by text)
    for i in (range(n) if not reduced else range(max(n - 1, 0), n)):
        ops.append(['remove_at', i])
        if not reduced:
            ops.append(['index_at', i])
    # an element of the list put into the list once more (the same object at
    # two positions is nothing special for a Python list)
    if not reduced:
        # whitespace is accepted as material but is not a group: the list, its
        # serialisation and the owner's text do not change
        ops.append(['ws', None, ' '])
        ops.append(['ws', n // 2, '\n'])
    if n and not reduced:
        ops.append(['append_at', n - 1])
        ops.append(['append_at', 0])
        ops.append(['insert_at', n // 2, 0])
        ops.append(['insert_at', 0, n - 1])
        ops.append(['insert_at', n, n // 2])
    for i in range(-(n + 1), n + 2):
        ops.append(['pop', i])
    ops.append(['pop', None])
    ops.append(['reverse'])
    ops.append(['clear'])
    if not reduced:
        ops.append(['index', '{a}'])
        ops.append(['index', '[c]'])
        for i in (0, -1, n, 1):
            ops.append(['getitem', i])
        for sl in ([None, 2], [1, None], [None, None], [-2, None], [0, 0],
                   [None, None, 2], [None, None, -1], [1, None, 2], [None, None, -2],
                   [None, None, 3], [4, 0, -1]):
            ops.append(['slice', sl])
    else:
        ops.append(['getitem', -1])
        ops.append(['slice', [1, None]])
        ops.append(['slice', [None, None, 2]])
    return ops


def apply_model(L, op):
    """-> ('val', v) | ('exc', name); mutates L like a Python list"""
    name = op[0]
    try:
        if name == 'append':
            if not op[2] and not well_formed(op[1]):
                return ('exc', 'TypeError')
            L.append(op[1])
            return ('val', None)
        if name == 'insert':
            if not op[3] and not well_formed(op[2]):
                return ('exc', 'TypeError')
            L.insert(op[1], op[2])
            return ('val', None)
        if name == 'extend':
            for g, o in zip(op[1], op[2]):
                if not o and not well_formed(g):
                    return ('exc', 'TypeError')
                L.append(g)
            return ('val', None)
        if name == 'remove':
            if not op[2] and not well_formed(op[1]):
                return ('exc', 'TypeError')
            L.remove(op[1])
            return ('val', None)
        if name == 'remove_at':
            L.remove(L[op[1]])
            return ('val', None)
        if name == 'ws':
            return ('val', None)
        if name == 'append_at':
            L.append(L[op[1]])
            return ('val', None)
        if name == 'insert_at':
            L.insert(op[1], L[op[2]])
            return ('val', None)
        if name == 'index_at':
            return ('val', L.index(L[op[1]]))
        if name == 'pop':
            return ('val', L.pop() if op[1] is None else L.pop(op[1]))
        if name == 'reverse':
            L.reverse()
            return ('val', None)
        if name == 'clear':
            L.clear()
            return ('val', None)
        if name == 'index':
            return ('val', L.index(op[1]))
        if name == 'getitem':
            return ('val', L[op[1]])
        if name == 'slice':
            return ('val', L[slice(*op[1])])
    except (ValueError, IndexError) as e:
        return ('exc', type(e).__name__)
    raise ValueError(name)


def apply_real(args, op):
    from TexSoup.data import TexArgs
    name = op[0]
    try:
        if name == 'append':
            return ('val', args.append(mk(op[1], op[2])))
        if name == 'insert':
            return ('val', args.insert(op[1], mk(op[2], op[3])))
        if name == 'extend':
            items = [mk(g, o) for g, o in zip(op[1], op[2])]
            how = op[3] if len(op) > 3 else 'list'
            if how == 'iter':
                items = iter(items)
            elif how == 'gen':
                items = (x for x in items)
            elif how == 'tuple':
                items = tuple(items)
            elif how == 'reversed':
                items = reversed(items[::-1])
            return ('val', args.extend(items))
        if name == 'remove':
            return ('val', args.remove(mk(op[1], op[2])))
        if name == 'remove_at':
            return ('val', args.remove(args[op[1]]))
        if name == 'ws':
            return ('val', args.append(op[2]) if op[1] is None else args.insert(op[1], op[2]))
        if name == 'append_at':
            return ('val', args.append(args[op[1]]))
        if name == 'insert_at':
            return ('val', args.insert(op[1], args[op[2]]))
        if name == 'index_at':
            return ('val', args.index(args[op[1]]))
        if name == 'pop':
            v = args.pop() if op[1] is None else args.pop(op[1])
            return ('val', str(v))
        if name == 'reverse':
            return ('val', args.reverse())
        if name == 'clear':
            return ('val', args.clear())
        if name == 'index':
            return ('val', args.index(mk(op[1], True)))
        if name == 'getitem':
            return ('val', str(args[op[1]]))
        if name == 'slice':
            v = args[slice(*op[1])]
            if not isinstance(v, TexArgs):
                return ('val', 'slice is %s, not TexArgs' % type(v).__name__)
            snap = [str(g) for g in v]
            # a slice is a new list: editing it must not show in the original
            # (the observation after this step compares the owner's list)
            v.append(mk('{sliced}', True))
            if v is args:
                return ('val', 'the slice is the list itself')
            return ('val', snap)
    except (ValueError, IndexError, TypeError) as e:
        return ('exc', type(e).__name__)


def observe(owner, L, step, op):
    from TexSoup.data import TexGroup, BraceGroup, BracketGroup
    args = owner.args
    got = [str(g) for g in args]
    if got != L:
        return fail('args!=list', 'step %d %r: list is %r, model %r' % (step, op, got, L))
    if len(args) != len(L):
        return fail('args!=list', 'step %d %r: len %d, model %d' % (step, op, len(args), len(L)))
    for g, t in zip(args, L):
        want = BraceGroup if t[0] == '{' else BracketGroup
        if not isinstance(g, want):
            return fail('args-not-groups', 'step %d %r: element %r is %s' % (
                step, op, t, type(g).__name__))
    # the read-only list protocol: truth value, reversed iteration, membership
    # and counting by (textually equal) group
    if bool(args) != bool(L) or [str(g) for g in reversed(args)] != L[::-1]:
        return fail('args!=list', 'step %d %r: bool/reversed disagree with the model %r' % (step, op, L))
    for t in sorted(set(L) | {'{zz}', '[a]'}):
        if (mk(t, True) in args) != (t in L) or args.count(mk(t, True)) != L.count(t):
            return fail('args!=list', 'step %d %r: membership/count of %s: in=%r count=%r, model %r'
                        % (step, op, t, mk(t, True) in args, args.count(mk(t, True)), L))
    if str(args) != ''.join(L):
        return fail('args-serialisation', 'step %d %r: str(args)=%r, concatenation %r'
                    % (step, op, str(args), ''.join(L)))
    if str(owner) != '\\cmd' + ''.join(L):
        return fail('owner-serialisation', 'step %d %r: owner prints %r, expected %r'
                    % (step, op, str(owner), '\\cmd' + ''.join(L)))
    return None


def fresh_owner(initial):
    from TexSoup import TexSoup
    soup = TexSoup('\\cmd' + ''.join(initial))
    return soup, soup.find('cmd')


class C18(Prop):
    id = 'C18'
    level = 'exploration'
    rule = ('case = (initial argument list of a parsed command, operation '
            'history); histories enumerated depth-first over every operation '
            'offered in each state (append/insert at every index in '
            '-(n+2)..n+2/extend/remove (by string, by fresh group, by an element of the list)/pop(i)/pop()/reverse/clear/index/'
            'getitem/slices, new material as objects and as unparsed strings, '
            'malformed strings) to the depth bound, plus seeded random '
            'histories up to length 40; non-trivial = at least one mutation '
            'succeeds on both sides; distinct = by content')
    assumptions = (
        'the reference is a Python list of group texts (TexSoup compares '
        'groups textually)',
        'whitespace-only strings are accepted as material and kept in the '
        'private shadow list only: they never change the list or its text',
    )
    probes = ('args', 'reach')
    probed_every = 10
    reach_required = ['data.TexArgs.append', 'data.TexArgs.extend', 'data.TexArgs.insert', 'data.TexArgs.remove', 'data.TexArgs.pop', 'data.TexArgs.reverse', 'data.TexArgs.clear', 'data.TexArgs.__getitem__', 'data.TexArgs.__str__', 'data.TexGroup.parse']
    min_nontrivial = 500
    budget_s = {'quick': 240, 'thorough': 2400}
    exhaustive = {
        'quick': 'all histories of depth 2 over the full op pool and of depth '
                 '3 over the reduced op pool, from 5 initial lists',
        'thorough': 'all histories of depth 3 over the full op pool from 3 '
                    'initial lists (depth 2 from the other 2) and of depth 4 '
                    'over the reduced op pool from the initial list with twins',
    }

    def _dfs(self, initial, depth, reduced, want, counter):
        def rec(L, hist):
            if len(hist) == depth:
                counter[0] += 1
                if want(counter[0]):
                    yield counter[0], {'initial': initial, 'ops': hist}
                return
            for op in ops_for(len(L), reduced):
                L2 = list(L)
                apply_model(L2, op)
                yield from rec(L2, hist + [op])
        yield from rec(list(initial), [])

    def cases(self, tier, seed, want):
        counter = [0]
        full_d, red_d = (2, 3) if tier == 'quick' else (3, 4)
        for ii, init in enumerate(INITIAL):
            # thorough: depth 3 over the full pool from three initial lists,
            # depth 4 over the reduced pool from the list with textual twins
            # (the op pool has grown to ~90 / ~35 operations)
            if tier == 'quick' or ii in (0, 2, 3):
                yield from self._dfs(init, full_d, False, want, counter)
            else:
                yield from self._dfs(init, 2, False, want, counter)
            if tier == 'quick' or ii == 3:
                yield from self._dfs(init, red_d, True, want, counter)
        n = 6000 if tier == 'quick' else 120000
        k = counter[0]
        for j in range(n):
            k += 1
            if not want(k):
                continue
            rng = random.Random('%d/%d/c18' % (seed, j))
            init = rng.choice(INITIAL)
            L, hist = list(init), []
            for _ in range(rng.randint(4, 40)):
                op = rng.choice(ops_for(len(L), False, rich=(j % 2 == 1)))
                apply_model(L, op)
                hist.append(op)
            yield k, {'initial': init, 'ops': hist, 'random': True}

    def nontrivial(self, p):
        return any(o[0] in ('append', 'insert', 'extend', 'remove', 'remove_at', 'append_at', 'insert_at', 'pop',
                            'reverse') for o in p['ops'])

    def sample(self, p):
        return {'initial': p['initial'], 'ops': p['ops'][:10]}

    def check(self, p, ctx):
        soup, owner = fresh_owner(p['initial'])
        L = list(p['initial'])
        f = observe(owner, L, -1, 'initial')
        if f:
            return [f]
        for step, op in enumerate(p['ops']):
            exp = apply_model(L, op)
            got = apply_real(owner.args, op)
            ctx.count('ops_compared')
            ctx.seen('op_outcome', (op[0], exp[0] if exp[0] == 'val' else exp[1]))
            if tuple(exp) != tuple(got):
                return [fail('op-result', 'step %d %r on %r: expected %r, got %r'
                             % (step, op, L, exp, got))]
            f = observe(owner, L, step, op)
            if f:
                return [f]
            if str(soup) != '\\cmd' + ''.join(L):
                return [fail('owner-serialisation', 'step %d: document prints %r'
                             % (step, str(soup)))]
            ctx.seen('state', tuple(L)[:4])
        # a list can be built from any iterable of its elements
        from TexSoup.data import TexArgs
        clone = TexArgs(g for g in owner.args)
        if [str(g) for g in clone] != L:
            return [fail('args!=list', 'TexArgs(<generator over the arguments>) is %r, expected %r'
                         % ([str(g) for g in clone], L))]
        return []

    def shrink(self, p, still_fails):
        ops = list(p['ops'])
        changed = True
        while changed:
            changed = False
            for i in range(len(ops)):
                q = dict(p, ops=ops[:i] + ops[i + 1:])
                if still_fails(q):
                    ops, changed = q['ops'], True
                    break
        return dict(p, ops=ops) if len(ops) < len(p['ops']) else p

    def gates(self, m, tier):
        g = []
        if len(m['sets'].get('op_outcome', ())) < 14:
            g.append('fewer than 14 distinct (operation, outcome) pairs observed')
        return g


PROP = C18()
