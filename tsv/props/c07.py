"""C07 - tolerant mode is a conservative extension that only inserts closers.

Three sub-claims, three oracles (differential strict/tolerant, closer-deletion
faults located from the syntax tree, alignment):

 (a) whenever strict parsing succeeds, tolerant parsing returns an identical
     tree and text;
 (b) a well-formed document without math/verbatim/list regions that lost one
     closing brace, one closing bracket of an argument or one \\end{name}:
     strict raises EOFError/TypeError, tolerant returns; at every truncation
     point tolerant returns or raises a diagnostic;
 (c) whenever tolerant parsing returns, the input is the output minus inserted
     '}', ']' and '\\end{name}' (and plus whitespace before argument openers,
     as in C08; C08's side conditions are applied here too).
"""
import random
import re

from tsv import findings
from tsv.base import Prop, fail, short
from tsv.gen import docgen, strgen
from tsv.model.align import only_closers_inserted
from tsv.props import common
from tsv.props import c08  # noqa: F401  (registers the shared classifiers)

DIAG = (EOFError, TypeError, AssertionError)

B_WEIGHTS = {'math': 0, 'mathenv': 0, 'verb': 0, 'list': 0, 'comment': 0,
             'sizing': 0, 'sig': 2, 'newcommand': 2, 'cmd': 24, 'env': 14,
             'group': 10}


def env_names(soup):
    from TexSoup.data import TexNamedEnv
    names = set()
    for _, _, _, el in common.raw_nodes(soup.expr):
        if isinstance(el, TexNamedEnv):
            names.add(str(el.name))
    return names


def later_bracket_at_same_depth(src, off):
    """a ']' follows the deleted one at the same brace depth inside the
    enclosing group: the document minus this ']' is still well-formed"""
    depth = 0
    i = off + 1
    while i < len(src):
        c = src[i]
        if c == '\\':
            i += 2
            continue
        if c == '{':
            depth += 1
        elif c == '}':
            depth -= 1
            if depth < 0:
                return False
        elif c == ']' and depth == 0:
            return True
        i += 1
    return False


class C07(Prop):
    id = 'C07'
    level = 'fault_enumeration'
    rule = ('cases: (a)/(c) token strings (exhaustive up to the bound, random '
            'up to 14 tokens, hostile tokens included for (a)), test/doc '
            'literals, faults of W1 documents, W1 documents; (b) every '
            'single-closer deletion (located from the syntax tree) and every '
            'truncation point of W1 documents without math/verbatim/list/'
            'comment/bare-bracket regions. non-trivial = length >= 2; '
            'distinct = by content')
    assumptions = (
        'a deleted "]" only counts when no other "]" follows at the same '
        'brace depth inside the enclosing group (otherwise the document is '
        'still well-formed: brackets do not nest)',
        '(c) is judged on inputs inside the C08 domain (no NUL/DEL, '
        'brace-delimited signature arguments)',
    )
    probes = ('read', 'reach')
    probed_every = 12
    reach_required = ['reader.read_env', 'reader.read_arg', 'reader.unclosed_env_handler', 'reader.read_args']
    min_nontrivial = 2000
    budget_s = {'quick': 300, 'thorough': 3600}
    exhaustive = {'quick': 'all strings of <= 2 tokens over the 70-token alphabet',
                  'thorough': 'all strings of <= 3 tokens over the 70-token alphabet; '
                              'every closer and every truncation point of the (b) documents'}

    def cases(self, tier, seed, want):
        q = tier == 'quick'
        k = 0
        for k2, p in common.string_cases(tier, seed, want, 'c07', hostile=True,
                                         scale=0.6):
            k = max(k, k2)
            yield k2, p
        k += 10_000_000
        for j in range(350 if q else 7000):
            rng = random.Random('%d/%d/c07b' % (seed, j))
            cfg = docgen.Cfg(maxdepth=(2, 3, 3, 4)[j % 4], size=(2, 3, 4)[j % 3],
                             weights=B_WEIGHTS, brackets_in_text=False)
            src, ast = docgen.gen_doc(rng, cfg)
            if len(src) > 300:
                continue
            _, closers = docgen.render_with_closers(ast)
            for off, text, kind in closers:
                k += 1
                if want(k):
                    yield k, {'s': src[:off] + src[off + len(text):], 'w': 'closer:' + kind,
                              'orig': src, 'off': off, 'closer': text}
            step = 1 if not q else 3
            for i in range(0, len(src), step):
                k += 1
                if want(k):
                    yield k, {'s': src[:i], 'w': 'truncation', 'orig': src}

    def nontrivial(self, p):
        return len(p['s']) >= 2

    def sample(self, p):
        return {'s': short(p['s'], 200), 'workload': p['w']}

    def check(self, p, ctx):
        from TexSoup import TexSoup
        s = p['s']
        w = p['w'].split(':')[0]
        fails = []
        strict = tol = None
        try:
            strict = TexSoup(s, tolerance=0)
            strict_exc = None
        except DIAG as e:
            strict_exc = e
        try:
            tol = TexSoup(s, tolerance=1)
            tol_exc = None
        except DIAG as e:
            tol_exc = e
        # (a)
        if strict is not None:
            ctx.count('a:strict_ok')
            if tol is None:
                return [fail('tolerant-rejects', 'strict parses %s but tolerant raises %s: %s'
                             % (short(repr(s), 100), type(tol_exc).__name__, short(str(tol_exc), 80)))]
            if str(tol) != str(strict) or repr(tol.expr) != repr(strict.expr):
                return [fail('tolerant-differs', 'on %s strict gives %s, tolerant %s'
                             % (short(repr(s), 90), short(repr(str(strict)), 90),
                                short(repr(str(tol)), 90)))]
        # (b)
        if w == 'closer':
            if p['closer'] == ']' and later_bracket_at_same_depth(p['orig'], p['off']):
                ctx.count('b:bracket_deletion_still_well_formed')
            else:
                ctx.count('b:closer_deleted:' + p['w'].split(':')[1])
                if strict is not None:
                    fails.append(fail('strict-accepts-lost-closer',
                                      'document %s minus %r at %d is accepted by strict parsing'
                                      % (short(repr(p['orig']), 100), p['closer'], p['off'])))
                elif not isinstance(strict_exc, (EOFError, TypeError)):
                    fails.append(fail('strict-wrong-error', 'lost %r: strict raises %s'
                                      % (p['closer'], type(strict_exc).__name__)))
                if tol is None:
                    fails.append(fail('tolerant-rejects-lost-closer',
                                      'document %s minus %r at %d: tolerant raises %s: %s'
                                      % (short(repr(p['orig']), 100), p['closer'], p['off'],
                                         type(tol_exc).__name__, short(str(tol_exc), 80))))
        elif w == 'truncation':
            ctx.count('b:truncations')
            if tol is not None:
                ctx.count('b:truncations_tolerant_returns')
        # (c)
        if tol is not None and strgen.side_conditions_ok(s):
            ctx.count('c:aligned')
            if strict is None:
                ctx.count('c:tolerant_only_successes')
            out = str(tol)
            # an inserted \end{N} must close an environment of the tolerant
            # tree, or one whose \begin{N} is visible in the output (an
            # environment opened inside an environment name is not kept as a
            # node, only its text)
            names = env_names(tol) | set(re.findall(r'\\begin\{([^{}]*)\}', out))
            why = only_closers_inserted(s, out, names)
            if why:
                fails.append(fail('not-only-closers', '%s; input %s -> tolerant output %s'
                                  % (why, short(repr(s), 110), short(repr(out), 110))))
            elif out != s:
                ctx.count('c:outputs_with_inserted_closers')
        return fails

    def shrink(self, p, still_fails):
        if p['w'].startswith('closer'):
            return p
        return common.shrink_text(p, still_fails, key='s', budget=250)

    def gates(self, m, tier):
        g = []
        c = m['counters']
        if c.get('a:strict_ok', 0) < 5000:
            g.append('(a) fewer than 5000 strict successes compared')
        if c.get('c:tolerant_only_successes', 0) < 1000:
            g.append('(c) fewer than 1000 tolerant-only successes')
        for kind in ('group', 'argr', 'argo', 'end'):
            if c.get('b:closer_deleted:' + kind, 0) < 100:
                g.append('(b) closer kind %s deleted fewer than 100 times' % kind)
        if c.get('b:truncations', 0) < 1000:
            g.append('(b) fewer than 1000 truncation points')
        return g


PROP = C07()
