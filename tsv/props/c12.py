"""C12 - math regions are delimited correctly and tolerate unbalanced brackets.

Constructed math regions: each of the 4 delimiter pairs and the 17 named math
environments with generated bodies (text, commands with brace arguments,
groups, escaped dollars, unbalanced ( ) [ ] not directly after an ordinary or
sizing command, every sizing prefix x delimiter, zero-argument operators
followed by brackets), placed in every context; adjacent regions of different
kinds.  From the construction: one math node of the right class / name /
delimiters whose body is exactly the enclosed source, brackets stay text,
sizing commands are single argument-less commands, commands stay searchable.
"""
import random

from tsv import findings
from tsv.base import Prop, fail, short
from tsv.gen import docgen
from tsv.props import common

OPEN = {'$': '$', '$$': '$$', '\\(': '\\)', '\\[': '\\]'}
CLASS = {'$': 'TexMathModeEnv', '$$': 'TexDisplayMathModeEnv',
         '\\(': 'TexMathEnv', '\\[': 'TexDisplayMathEnv'}
NAME = {'$': '$', '$$': '$$', '\\(': 'math', '\\[': 'displaymath'}
KINDS = list(OPEN) + ['env:' + n for n in docgen.MENV]
CONTEXTS = {
    'top': ('', ''), 'text': ('so ', ' holds'),
    'env': ('\\begin{center}e ', ' f\\end{center}'),
    'group': ('{g ', ' h}'), 'brace-arg': ('\\outer{p ', ' q}'),
    'bracket-arg': ('\\outer[p ', ' q]'),
    'item': ('\\begin{itemize}\\item one ', ' two\\item three\\end{itemize}'),
    'after-item': ('\\begin{itemize}\\item', '\\end{itemize}'),
    # inside the arguments of definition / fixed-signature commands
    'newcommand-arg': ('\\newcommand{\\R}{', '}'),
    'renewcommand-arg': ('\\renewcommand{\\R}[1]{a ', ' b}'),
    'def-arg': ('\\def\\R{', '}'),
    'section-arg': ('\\section{On ', ' spaces}'),
    'textbf-arg': ('\\textbf{', '}'),
    'env-arg': ('\\begin{theorem}[', ']t\\end{theorem}'),
}
NESTED_ENVS = ['array', 'cases', 'matrix', 'aligned', 'split', 'pmatrix', 'gathered', 'align*']
NEST_CONTEXTS = ['top', 'text', 'env', 'group', 'brace-arg', 'item']
NESTED_BODIES = [('', 'a & [b \\\\ c'), ('{cc}', '\\alpha & (0,1] '), ('', '\\frac{1}{2})'),
                 ('{c}', 'x')]
PLAIN_CMDS = ['alpha', 'frac', 'sum', 'mathbb']
ZERO = ['cup', 'cap', 'in', 'notin', 'infty']
SAFE_AFTER_NAME = ['+', '=1', '-y', '^2', '_i', '.', ',z', ' +', ' \n=']
TEXT = ['x', 'y+1', ' = ', '<', '>', '0', 'ab', '\\$', '\\$5', '\\,', '\\\\', '&',
        '^', '_', ' \n ', '~', '|', 'é',
        # digit-first and multi-line runs, escaped dollars glued to ^ _ and digits
        '2x', '10', '5\n+1', '\n', 'x\ny', '^\\$', '_\\$', '3\\$', '\r\n', '1.5,']
BRACKETS = ['(', ')', '[', ']', '(0,1]', '[0,1)', ']a,b[', '((', ']]', ')(']


def gen_body(rng, in_bracket_ctx=False, n=None):
    """-> (body, expect) where expect counts the commands by name"""
    parts, exp = [], {}
    after_cmd = None          # None | 'name' | 'args' | 'sizing' | 'zero'

    def add_text(t):
        nonlocal after_cmd
        parts.append(t)
        after_cmd = None
    for _ in range(rng.randint(1, 7) if n is None else n):
        c = rng.random()
        if after_cmd in ('name', 'zero') and c < 1:
            # something that neither extends the name nor attaches
            if after_cmd == 'zero' and rng.random() < .6:
                b = rng.choice(['[0,1)', '[', '[x', '(a', ' [b'])
                if in_bracket_ctx:
                    b = b.replace(']', ')')
                add_text(b)
            else:
                add_text(rng.choice(SAFE_AFTER_NAME))
            continue
        if after_cmd in ('args', 'sizing'):
            t = rng.choice(['x', '+', ' y', '=', '^2', ')', '(', ' )'])
            if after_cmd == 'args' and rng.random() < .3:
                # blanks, then a bracket: not "directly after" the command, so
                # plain text that need not balance
                t = rng.choice([' [', ' [b', '\n[0,1)', ' \n [', '\t[x', ' ]', ' (0,1]'])
                if in_bracket_ctx:
                    t = t.replace(']', ')')
            add_text(t)
            continue
        if c < .30:
            add_text(rng.choice(TEXT))
        elif c < .48:
            b = rng.choice(BRACKETS)
            if in_bracket_ctx:
                b = b.replace(']', ')')
            add_text(b)
        elif c < .60:
            nm = rng.choice(PLAIN_CMDS)
            exp[nm] = exp.get(nm, 0) + 1
            nargs = rng.choice([0, 1, 2])
            argbodies = []
            for _ in range(nargs):
                b = rng.choice(['a', 'x+1', '(', '\\$', 'b]', '', 'Z'])
                if b == 'Z':
                    z = rng.choice(ZERO)
                    exp[z] = exp.get(z, 0) + 1
                    b = 'a\\' + z + rng.choice(['[0,1)', '[', ' [x'])
                argbodies.append(b)
            parts.append('\\' + nm + ''.join('{%s}' % b for b in argbodies))
            after_cmd = 'args' if nargs else 'name'
        elif c < .72:
            inner = rng.choice(['x', 'a+b', '[', '(', '\\$', 'Z'])
            if inner == 'Z':
                # a zero-argument operator followed by a bracket inside a
                # brace group that is not a command argument (x_{i\in[0,n)})
                z = rng.choice(ZERO)
                exp[z] = exp.get(z, 0) + 1
                inner = rng.choice(['i', '']) + '\\' + z + rng.choice(['[0,n)', '[', '[k', ' [0'])
                if in_bracket_ctx:
                    inner = inner.replace(']', ')')
            parts.append(rng.choice(['', '_', '^']) + '{' + inner + '}')
            after_cmd = None
        elif c < .88:
            d = rng.choice(docgen.DELIMS)
            if in_bracket_ctx and d == ']':
                d = ')'
            nm = rng.choice(docgen.SIZING) + d
            exp[nm] = exp.get(nm, 0) + 1
            parts.append('\\' + nm)
            after_cmd = 'sizing' if not d[-1].isalpha() else 'name'
        else:
            nm = rng.choice(ZERO)
            exp[nm] = exp.get(nm, 0) + 1
            parts.append('\\' + nm)
            after_cmd = 'zero'
    if after_cmd in ('name', 'zero'):
        parts.append(' ')
    body = ''.join(parts)
    if n is None and rng.random() < .08:
        # the region's body opens with blanks and an unbalanced bracket
        b = rng.choice([' [0,1) ', '\n[a ', ' \n [', '\t[', ' ]', '\n(0,1] '])
        if in_bracket_ctx:
            b = b.replace(']', ')')
        body = b + body
    return body, exp


def region(kind, body):
    if kind.startswith('env:'):
        n = kind[4:]
        return '\\begin{%s}%s\\end{%s}' % (n, body, n)
    return kind + body + OPEN[kind]


def fix_body(kind, body):
    """construction conditions: `$..$` is never empty, a `$`-delimited body
    neither starts nor ends with a dollar; a named environment's body does not
    start with a brace/bracket nor with blank+brace (would be environment options)"""
    if kind == '$' and body == '':
        body = 'x'
    if kind in ('$', '$$') and body.endswith('\\$') is False and body.endswith('$'):
        body += ' '
    if kind.startswith('env:') and body[:1] in '{[':
        body = 'x' + body
    import re
    # (a bracket after blanks is NOT an option of the environment: bracket
    # groups attach after a brace group only when directly adjacent)
    if kind.startswith('env:') and re.match(r'[ \t]*\n?[ \t]*\{', body):
        body = 'x' + body
    return body


def math_nodes(expr):
    from TexSoup.data import (TexMathModeEnv, TexDisplayMathModeEnv, TexMathEnv,
                              TexDisplayMathEnv, TexNamedEnv)
    out = []
    for _, _, _, el in common.raw_nodes(expr):
        if isinstance(el, (TexMathModeEnv, TexDisplayMathModeEnv, TexMathEnv, TexDisplayMathEnv)):
            out.append(el)
        elif isinstance(el, TexNamedEnv) and el.name in docgen.MENV:
            out.append(el)
    return out


def check_region(el, kind, body):
    if kind.startswith('env:'):
        n = kind[4:]
        if type(el).__name__ != 'TexNamedEnv' or el.name != n:
            return 'expected environment %s, got %s %r' % (n, type(el).__name__, el.name)
        if el.begin != '\\begin{%s}' % n or el.end != '\\end{%s}' % n:
            return 'wrong delimiters %r %r' % (el.begin, el.end)
        if len(el.args):
            return 'math environment took arguments %r' % (el.args,)
    else:
        if type(el).__name__ != CLASS[kind]:
            return 'expected %s for %s, got %s' % (CLASS[kind], kind, type(el).__name__)
        if el.name != NAME[kind] or el.begin != kind or el.end != OPEN[kind]:
            return 'wrong name/delimiters %r %r %r' % (el.name, el.begin, el.end)
    got = ''.join(map(str, el._contents))
    if got != body:
        return 'body is %r, enclosed source is %r' % (got, body)
    return None


class C12(Prop):
    id = 'C12'
    level = 'exploration'
    rule = ('cases: (i) one math region (4 delimiter pairs + 17 named math '
            'environments) with a generated body in 14 contexts; (ii) every '
            'sizing prefix x every delimiter as the only command of a region; '
            '(iii) every zero-argument operator followed by a bracket; (iv) '
            'two directly adjacent regions for all ordered pairs of kinds; (v) a '
            'named environment (array, cases, split, ...) nested in every kind of region; '
            '(vi) a math region inside the argument of a command inside every kind of region. '
            'non-trivial = the body contains a bracket, a command or an '
            'escaped dollar; distinct = by content')
    assumptions = (
        'brackets are never placed directly after an ordinary or sizing '
        'command (the statement excludes it); `$..$` bodies are non-empty',
        'adjacent regions of the *same* dollar kind ($a$$b$) are not in the '
        'statement ("different kinds") and are not generated',
    )
    probes = ('tok', 'reach')
    probed_every = 10
    reach_required = ['tokens.tokenize_math_sym_switch', 'tokens.tokenize_math_asym_switch', 'tokens.tokenize_escaped_symbols', 'reader.read_math_env', 'tokens.tokenize_punctuation_command_name']
    min_nontrivial = 2000
    budget_s = {'quick': 200, 'thorough': 2400}
    exhaustive = {'quick': 'every sizing prefix x delimiter x 4 delimiter pairs; '
                           'every ordered pair of region kinds',
                  'thorough': 'every sizing prefix x delimiter x all 21 region kinds; '
                              'every ordered pair of region kinds'}

    def cases(self, tier, seed, want):
        k = 0
        kinds2 = list(OPEN) if tier == 'quick' else KINDS
        for kind in kinds2:
            for pre in docgen.SIZING:
                for d in docgen.DELIMS:
                    k += 1
                    if want(k):
                        yield k, {'w': 'sizing', 'kind': kind, 'ctx': 'text',
                                  'body': 'a\\%s%s b' % (pre, d) if not d[-1].isalpha()
                                  else 'a\\%s%s b' % (pre, d),
                                  'expect': {pre + d: 1}}
            for pre in docgen.SIZING:
                for d in ('.', '|', '(', '<'):
                    for nxt in ('|', '.', ')', '>', '|x|'):
                        k += 1
                        if want(k):
                            yield k, {'w': 'sizing', 'kind': kind, 'ctx': 'text',
                                      'body': 'a\\%s%s%s b' % (pre, d, nxt),
                                      'expect': {pre + d: 1}}
            for z in ZERO:
                for b in ('[0,1)', '[', '(', ' [x', '[a]'):
                    k += 1
                    if want(k):
                        yield k, {'w': 'zero-arg', 'kind': kind, 'ctx': 'text',
                                  'body': 'A\\%s%s' % (z, b), 'expect': {z: 1}}
        pair_kinds = list(OPEN) + ['env:equation', 'env:align*']
        for a in pair_kinds:
            for b in pair_kinds:
                if a == b and a in ('$', '$$'):
                    continue
                for ba, bb in (('a', 'b'), ('x^2', '\\alpha+1'), ('(', ']')):
                    k += 1
                    if want(k):
                        yield k, {'w': 'adjacent', 'kinds': [a, b], 'bodies': [ba, bb]}
        # (v) a named environment nested in a math region (the usual home of
        # array / cases / split): it stays one environment node, searchable,
        # and the brackets in its body stay text
        for outer in KINDS:
            for inner in NESTED_ENVS:
                for ci, cx in enumerate(NEST_CONTEXTS):
                    for bi, (ia, ib) in enumerate(NESTED_BODIES):
                        k += 1
                        if want(k) and (tier != 'quick' or (ci + bi + len(inner)) % 2 == 0):
                            yield k, {'w': 'nested', 'kind': outer, 'inner': inner, 'ctx': cx,
                                      'iargs': ia, 'ibody': ib}
        # (vi) a `$..$` / `$$..$$` / `\\(..\\)` region inside the argument of a
        # command that itself stands in a math region (`\\[ x \\text{for all $y$} \\]`)
        for outer in KINDS:
            for icmd in ('\\text{', '\\mbox{', '\\textrm[', '\\intertext{'):
                for ikind in ('$', '$$', '\\(', '\\['):
                    for cx in ('top', 'env', 'item'):
                        k += 1
                        if want(k) and not (icmd.endswith('[') and ikind == '\\['):
                            yield k, {'w': 'math-in-arg-in-math', 'kind': outer, 'icmd': icmd,
                                      'ikind': ikind, 'ctx': cx}
        n = 14000 if tier == 'quick' else 350000
        ctxs = list(CONTEXTS)
        for j in range(n):
            k += 1
            if not want(k):
                continue
            rng = random.Random('%d/%d/c12' % (seed, j))
            kind = KINDS[j % len(KINDS)]
            ctx = ctxs[(j // len(KINDS)) % len(ctxs)]
            if kind.startswith('env:') and ctx in ('newcommand-arg', 'renewcommand-arg'):
                # \begin/\end inside a \newcommand-style definition do not
                # open environments (C02): only the delimiter pairs there
                kind = list(OPEN)[j % 4]
            body, exp = gen_body(rng, in_bracket_ctx=(ctx in ('bracket-arg', 'env-arg')))
            yield k, {'w': 'body', 'kind': kind, 'ctx': ctx,
                      'body': fix_body(kind, body), 'expect': exp}

    def nontrivial(self, p):
        if p['w'] in ('adjacent', 'nested', 'math-in-arg-in-math'):
            return True
        return any(c in p['body'] for c in '()[]\\')

    def sample(self, p):
        if p['w'] == 'adjacent':
            return {'src': region(p['kinds'][0], p['bodies'][0]) + region(p['kinds'][1], p['bodies'][1])}
        if p['w'] in ('nested', 'math-in-arg-in-math'):
            return p
        return {'src': short(CONTEXTS[p['ctx']][0] + region(p['kind'], p['body']) + CONTEXTS[p['ctx']][1], 200)}

    def check(self, p, ctx):
        from TexSoup.data import BracketGroup, TexCmd
        if p['w'] == 'adjacent':
            src = 'so ' + region(p['kinds'][0], p['bodies'][0]) + \
                region(p['kinds'][1], p['bodies'][1]) + ' end'
            soup = common.parse(src)
            ctx.seen('adjacent_pair', tuple(p['kinds']))
            ms = math_nodes(soup.expr)
            if len(ms) != 2:
                return [fail('adjacent-regions', '%s yields %d math regions' % (short(repr(src)), len(ms)))]
            for el, kind, body in zip(ms, p['kinds'], p['bodies']):
                why = check_region(el, kind, body)
                if why:
                    return [fail('adjacent-regions', '%s: %s' % (short(repr(src)), why))]
            if str(soup) != src:
                return [fail('math-roundtrip', '%s -> %s' % (short(repr(src)), short(repr(str(soup)))))]
            return []
        if p['w'] == 'nested':
            return self.check_nested(p, ctx)
        if p['w'] == 'math-in-arg-in-math':
            c0, c1 = CONTEXTS[p['ctx']]
            closer = '}' if p['icmd'].endswith('{') else ']'
            inner = region(p['ikind'], 'y+1')
            body = 'x ' + p['icmd'] + ' for all ' + inner + ' ok' + closer + ' z'
            src = c0 + region(p['kind'], body) + c1
            soup = common.parse(src)
            ctx.count('regions:math-in-arg-in-math')
            ctx.seen('math_in_arg', (p['kind'], p['ikind']))
            if str(soup) != src:
                return [fail('math-roundtrip', '%s -> %s' % (short(repr(src)), short(repr(str(soup)))))]
            ms = math_nodes(soup.expr)
            if len(ms) != 2:
                return [fail('math-node', '%s yields %d math regions, expected 2 (one inside the argument)'
                             % (short(repr(src), 140), len(ms)))]
            why = check_region(ms[0], p['kind'], body) or check_region(ms[1], p['ikind'], 'y+1')
            if why:
                return [fail('math-node', '%s: %s' % (short(repr(src), 140), why))]
            return []
        c0, c1 = CONTEXTS[p['ctx']]
        kind, body = p['kind'], p['body']
        src = c0 + region(kind, body) + c1
        soup = common.parse(src)
        ctx.count('regions:' + p['w'])
        ctx.seen('kind', kind)
        ctx.seen('context', p['ctx'])
        ms = math_nodes(soup.expr)
        if len(ms) != 1:
            return [fail('math-node', '%s yields %d math regions' % (short(repr(src), 140), len(ms)))]
        why = check_region(ms[0], kind, body)
        if why:
            return [fail('math-node', '%s: %s' % (short(repr(src), 140), why))]
        if str(soup) != src:
            return [fail('math-roundtrip', '%s -> %s' % (short(repr(src)), short(repr(str(soup)))))]
        # brackets stay text; sizing / zero-argument commands take nothing
        for _, _, _, el in common.raw_nodes(ms[0]):
            if isinstance(el, BracketGroup):
                return [fail('bracket-not-text', 'a bracket in %s became an argument group'
                             % short(repr(src), 140))]
            if isinstance(el, TexCmd) and (el.name in ZERO or docgen.is_sizing(str(el.name))) \
                    and len(el.args):
                return [fail('operator-takes-argument', '\\%s took arguments %r in %s'
                             % (el.name, el.args, short(repr(src), 140)))]
        for name, cnt in p['expect'].items():
            ctx.count('searches')
            if '{' in name or '[' in name:
                got = sum(1 for _, _, _, el in common.raw_nodes(ms[0])
                          if isinstance(el, TexCmd) and el.name == name)
            else:
                got = len(soup.find_all(name))
            if got != cnt:
                return [fail('math-search', 'command \\%s occurs %d time(s) in %s but %d found'
                             % (name, cnt, short(repr(src), 140), got))]
            if docgen.is_sizing(name):
                ctx.seen('sizing_command', name)
        return []

    def check_nested(self, p, ctx):
        from TexSoup.data import BracketGroup, TexNamedEnv
        c0, c1 = CONTEXTS[p['ctx']]
        kind, inner = p['kind'], p['inner']
        iregion = '\\begin{%s}%s%s\\end{%s}' % (inner, p['iargs'], p['ibody'], inner)
        body = 'u ' + iregion + ' v'
        src = c0 + region(kind, body) + c1
        soup = common.parse(src)
        ctx.count('regions:nested')
        ctx.seen('nested_pair', (kind, inner))
        if str(soup) != src:
            return [fail('math-roundtrip', '%s -> %s' % (short(repr(src)), short(repr(str(soup)))))]
        ms = math_nodes(soup.expr)
        want = 2 if inner in docgen.MENV else 1
        if len(ms) != want:
            return [fail('math-node', '%s yields %d math regions, expected %d'
                         % (short(repr(src), 140), len(ms), want))]
        why = check_region(ms[0], kind, body)
        if why:
            return [fail('math-node', '%s: %s' % (short(repr(src), 140), why))]
        found = soup.find_all(inner)
        if kind == 'env:' + inner:
            found = [f for f in found if f.expr is not ms[0]]
        if len(found) != 1 or not isinstance(found[0].expr, TexNamedEnv):
            return [fail('nested-environment', 'environment %s inside %s of %s: find_all gives %r'
                         % (inner, kind, short(repr(src), 140), [type(f.expr).__name__ for f in found]))]
        el = found[0].expr
        if str(el) != iregion or ''.join(map(str, el._contents)) != p['ibody'] \
                or str(el.args) != p['iargs']:
            return [fail('nested-environment', 'environment %s inside %s: text %r, body %r, args %r; '
                         'source has %r' % (inner, kind, str(el), ''.join(map(str, el._contents)),
                                            str(el.args), iregion))]
        for _, _, _, x in common.raw_nodes(ms[0]):
            if isinstance(x, BracketGroup):
                return [fail('bracket-not-text', 'a bracket in %s became an argument group'
                             % short(repr(src), 140))]
        if 'alpha' in p['ibody'] or 'frac' in p['ibody']:
            nm = 'alpha' if 'alpha' in p['ibody'] else 'frac'
            if len(soup.find_all(nm)) != 1:
                return [fail('math-search', 'command \\%s in the nested environment of %s not found once'
                             % (nm, short(repr(src), 140)))]
        return []

    def gates(self, m, tier):
        g = []
        if len(m['sets'].get('nested_pair', ())) < len(KINDS) * len(NESTED_ENVS):
            g.append('not every (region kind, nested environment) pair exercised')
        if len(m['sets'].get('kind', ())) < len(KINDS):
            g.append('not all 21 region kinds exercised')
        if len(m['sets'].get('context', ())) < len(CONTEXTS):
            g.append('not every context exercised')
        if len(m['sets'].get('sizing_command', ())) < len(docgen.SIZING) * len(docgen.DELIMS):
            g.append('not every sizing prefix x delimiter observed')
        if len(m['sets'].get('adjacent_pair', ())) < 30:
            g.append('fewer than 30 ordered pairs of adjacent region kinds')
        return g


PROP = C12()


@findings.classifier('inline-math-then-dollars')
def _d13(prop, p, fails, rerun):
    """D13: `$a$` directly followed by `$$b$$` - the tokenizer greedily takes
    `$$` as a display switch."""
    if p.get('w') != 'adjacent' or p['kinds'][0] != '$' or p['kinds'][1] != '$$':
        return False
    # counterfactual: the same two regions in the other order are fine
    q = dict(p, kinds=[p['kinds'][1], p['kinds'][0]], bodies=[p['bodies'][1], p['bodies'][0]])
    return findings.fixed_by(p, q, fails, rerun)
