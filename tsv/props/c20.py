"""C20 - the look-ahead buffer is a faithful cursor over its sequence.

History + executable model: every operation is issued against a real
`TexSoup.utils.Buffer` and against (list, index); the monitor compares the
returned items and `.position` after *each* step.  Exhaustive BFS over a fixed
op pool to a depth bound on all short underlying sequences, both backings,
plus random longer histories.  (The same model also runs *in situ* under real
parses: probe `buf`, used by C01/C06/C19.)
"""
import itertools
import random

from tsv.base import Prop, fail

# ---------------------------------------------------------------- model ----

STR_ITEMS = 'abab'          # duplicates on purpose
TOK_ITEMS = [('ab', 0), ('{', 2), ('ab', 3), ('c', 5)]   # (text, position)


class Model:
    """A plain list with an integer index."""

    def __init__(self, items, positions):
        self.L = list(items)
        self.P = list(positions)
        self.i = 0

    def join(self, a, b):
        return ''.join(self.L[a:b])

    def pos_of_slice(self, a, b):
        """position attribute expected on a non-empty joined slice"""
        a = max(a, 0)
        if a < min(b, len(self.L)):
            return self.P[a]
        return None


def in_domain(m, op, arg):
    """Operations outside the statement's domain are never generated: moves
    beyond either end, negative absolute indices."""
    n, i = len(m.L), m.i
    if op == 'forward':
        return 0 <= arg <= n - i
    if op == 'backward':
        return 0 <= arg <= i
    if op == 'peek':
        return i + arg >= 0
    if op == 'peekr':
        return i + arg[0] >= 0 and i + arg[1] >= 0
    if op == 'endswith':
        return len(arg) <= i
    if op in ('forward_until', 'forward_until_buf', 'num_forward_until'):
        return True
    return True


def apply_model(m, op, arg):
    """-> (kind, value, position_of_value|None).  kind in val/exc"""
    L, n = m.L, len(m.L)
    if op == 'next':
        if m.i < n:
            m.i += 1
            return ('val', L[m.i - 1], m.P[m.i - 1])
        return ('exc', 'StopIteration', None)
    if op == 'forward':
        m.i += arg
        return ('val', m.join(m.i - arg, m.i), m.pos_of_slice(m.i - arg, m.i))
    if op == 'backward':
        m.i -= arg
        return ('val', m.join(m.i, m.i + arg), m.pos_of_slice(m.i, m.i + arg))
    if op == 'peek':
        j = m.i + arg
        if j < n:
            return ('val', L[j], m.P[j])
        return ('val', None, None)
    if op == 'peekr':
        a, b = m.i + arg[0], m.i + arg[1]
        return ('val', m.join(a, b), m.pos_of_slice(a, b))
    if op == 'index':
        if arg < n:
            return ('val', L[arg], m.P[arg])
        return ('exc', 'IndexError', None)
    if op == 'slice':
        a, b = arg
        a0 = 0 if a is None else a
        b0 = n if b is None else b
        return ('val', ''.join(L[a:b]), m.pos_of_slice(a0, b0))
    if op == 'hasNext':
        return ('val', m.i + arg - 1 < n, None)
    if op == 'startswith':
        return ('val', m.join(m.i, m.i + len(arg)).startswith(arg), None)
    if op == 'endswith':
        return ('val', m.join(m.i - len(arg), m.i).endswith(arg), None)
    if op == 'position':
        return ('val', m.i, None)
    if op in ('forward_until', 'num_forward_until'):
        j = m.i
        while j < n and L[j] != arg:
            j += 1
        if op == 'num_forward_until':
            return ('val', j - m.i, None)
        start = m.i
        m.i = j
        return ('val', m.join(start, j), m.P[start] if start < n else None)
    if op == 'forward_until_buf':
        j = m.i
        while j < n and not ''.join(L[j:j + len(arg)]).startswith(arg):
            j += 1
        start = m.i
        m.i = j
        return ('val', m.join(start, j), m.P[start] if start < n else None)
    raise ValueError(op)


def apply_real(buf, op, arg):
    try:
        if op == 'next':
            v = next(buf)
        elif op == 'forward':
            v = buf.forward(arg)
        elif op == 'backward':
            v = buf.backward(arg)
        elif op == 'peek':
            v = buf.peek(arg)
        elif op == 'peekr':
            v = buf.peek(tuple(arg))
        elif op == 'index':
            v = buf[arg]
        elif op == 'slice':
            v = buf[arg[0]:arg[1]]
        elif op == 'hasNext':
            v = buf.hasNext(arg)
        elif op == 'startswith':
            v = buf.startswith(arg)
        elif op == 'endswith':
            v = buf.endswith(arg)
        elif op == 'position':
            v = buf.position
        elif op == 'forward_until':
            v = buf.forward_until(lambda t: t == arg)
        elif op == 'num_forward_until':
            v = buf.num_forward_until(lambda t: t == arg)
        elif op == 'forward_until_buf':
            v = buf.forward_until(lambda b: b.startswith(arg), peek=False)
        else:
            raise ValueError(op)
    except (StopIteration, IndexError) as e:
        return ('exc', type(e).__name__, None)
    if isinstance(v, (bool, int)) and not isinstance(v, str):
        return ('val', v, None)
    if v is None:
        return ('val', None, None)
    return ('val', str(v), getattr(v, 'position', None))


MOVERS = {'next', 'forward', 'backward', 'forward_until', 'forward_until_buf'}

OPS = [
    ('next', None), ('forward', 0), ('forward', 1), ('forward', 2),
    ('backward', 1), ('backward', 2),
    ('peek', 0), ('peek', 1), ('peek', -1), ('peek', 3),
    ('peekr', [0, 2]), ('peekr', [-1, 1]), ('peekr', [1, 1]), ('peekr', [0, 9]),
    ('index', 0), ('index', 2), ('index', 5),
    ('slice', [0, 2]), ('slice', [1, None]), ('slice', [None, 3]),
    ('slice', [None, None]), ('slice', [2, 9]),
    ('hasNext', 1), ('hasNext', 2),
    ('startswith', 'a'), ('startswith', 'ab'), ('endswith', 'b'),
    ('endswith', 'ab'),
    ('forward_until', 'b'), ('forward_until', '{'), ('forward_until', 'zz'),
    ('forward_until_buf', 'ba'), ('forward_until_buf', '{ab'),
    ('num_forward_until', 'b'), ('num_forward_until', 'zz'),
    ('position', None),
]
# the BFS pool (a subset, so that depth 4 stays enumerable)
BFS_OPS = [OPS[i] for i in (0, 1, 2, 3, 4, 5, 6, 7, 8, 10, 11, 14, 16, 17, 18,
                            20, 22, 23, 25, 27, 28, 30, 31, 33)]


def make_backing(kind, n):
    from TexSoup.utils import Buffer, Token
    if kind == 'str':
        items = list(STR_ITEMS[:n])
        return Buffer(''.join(items)), items, list(range(n))
    toks = TOK_ITEMS[:n]
    real = Buffer(iter([Token(t, p) for t, p in toks]))
    return real, [t for t, _ in toks], [p for _, p in toks]


class C20(Prop):
    id = 'C20'
    level = 'exploration'
    rule = ('case = (backing, underlying sequence, operation history); '
            'histories are enumerated breadth-first over a fixed pool of '
            'operations (exhaustive to the depth bound, only in-domain ops) '
            'plus seeded random histories of length <= 60 over the full '
            'pool; non-trivial = the history moves the cursor at least once '
            'and observes at least once after a move; distinct = by content')
    assumptions = (
        'domain as stated: in-range moves only, no negative absolute index, '
        'items are truthy (hasNext is documented as bool(peek))',
        'the model is a Python list with an integer index',
    )
    min_nontrivial = 500
    budget_s = {'quick': 200, 'thorough': 1500}
    exhaustive = {
        'quick': 'all in-domain histories of depth 3 over 24 ops x sequences '
                 'of length 0..4 x {string,token} backing',
        'thorough': 'all in-domain histories of depth 4 over 24 ops x '
                    'sequences of length 0..4 x {string,token} backing',
    }

    def cases(self, tier, seed, want):
        depth = 3 if tier == 'quick' else 4
        k = 0
        for kind in ('str', 'tok'):
            for n in range(0, 5):
                for ops in itertools.product(range(len(BFS_OPS)), repeat=depth):
                    k += 1
                    if not want(k):
                        continue
                    yield k, {'backing': kind, 'n': n,
                              'ops': [list(BFS_OPS[o]) for o in ops]}
        nrand = 4000 if tier == 'quick' else 150000
        for j in range(nrand):
            k += 1
            if not want(k):
                continue
            rng = random.Random('%d/%d/c20' % (seed, j))
            kind = rng.choice(('str', 'tok'))
            n = rng.randint(0, 4)
            ops = [list(rng.choice(OPS)) for _ in range(rng.randint(5, 60))]
            yield k, {'backing': kind, 'n': n, 'ops': ops, 'random': True}

    def nontrivial(self, p):
        moved = False
        for op, _ in p['ops']:
            if op in MOVERS:
                moved = True
            elif moved:
                return True
        return False

    def sample(self, p):
        return {'backing': p['backing'], 'n': p['n'],
                'ops': [('%s(%r)' % (o, a)) for o, a in p['ops'][:12]]}

    def check(self, p, ctx):
        real, items, positions = make_backing(p['backing'], p['n'])
        m = Model(items, positions)
        applied = 0
        for step, (op, arg) in enumerate(p['ops']):
            if not in_domain(m, op, arg):
                if p.get('random'):
                    continue
                break           # BFS: the rest of this history is out of domain
            exp = apply_model(m, op, arg)
            got = apply_real(real, op, arg)
            applied += 1
            ctx.count('ops_compared')
            ctx.seen('state', (op, str(arg), min(len(m.L) - m.i, 3), exp[0]))
            if exp[0] != got[0] or exp[1] != got[1]:
                return [fail('buffer!=model', 'step %d %s(%r): expected %r got %r'
                             % (step, op, arg, exp[:2], got[:2]))]
            # For a token-backed buffer an item *is* its token, position
            # included.  For a string-backed buffer the index handed to each
            # character is an artefact of when the character was materialised
            # (Buffer('ab').forward(2) labels both characters 2); the
            # statement speaks about items and cursor only, so it is not
            # compared there.
            if p['backing'] == 'tok' and exp[2] is not None \
                    and got[2] != exp[2]:
                return [fail('buffer-item-position',
                             'step %d %s(%r): item position %r, expected %r'
                             % (step, op, arg, got[2], exp[2]))]
            if real.position != m.i:
                return [fail('cursor!=model', 'step %d %s(%r): cursor %r, model %r'
                             % (step, op, arg, real.position, m.i))]
        ctx.count('histories_fully_in_domain', 1 if applied == len(p['ops']) else 0)
        return []

    def shrink(self, p, still_fails):
        ops = list(p['ops'])
        changed = True
        while changed:
            changed = False
            for i in range(len(ops)):
                q = dict(p, ops=ops[:i] + ops[i + 1:])
                if still_fails(q):
                    ops = q['ops']
                    changed = True
                    break
        return dict(p, ops=ops) if len(ops) < len(p['ops']) else p

    def gates(self, m, tier):
        g = []
        if m['counters'].get('ops_compared', 0) < 10000:
            g.append('fewer than 10000 operations compared')
        if len(m['sets'].get('state', ())) < 120:
            g.append('fewer than 120 distinct (op, arg, distance-to-end, outcome) states')
        return g


PROP = C20()

# -- known finding classifiers ---------------------------------------------
from tsv import findings  # noqa: E402


@findings.classifier('forward-until-at-end')
def _d3(prop, p, fails, rerun):
    """D3: forward_until called with the cursor at the end of the buffer."""
    if 'exception' not in findings.checks_of(fails):
        return False
    ops = p['ops']
    # neutralise: drop every forward_until issued at the end of the sequence
    _, items, positions = make_backing(p['backing'], p['n'])
    m = Model(items, positions)
    keep, dropped = [], 0
    for op, arg in ops:
        if not in_domain(m, op, arg):
            keep.append([op, arg])
            continue
        if op.startswith('forward_until') and m.i >= len(m.L):
            dropped += 1
            continue
        apply_model(m, op, arg)
        keep.append([op, arg])
    return dropped > 0 and findings.fixed_by(p, dict(p, ops=keep), fails, rerun)
