"""C04 - navigation views of a node are mutually consistent.

Relations between views, evaluated at *every* node of every parsed W1
document, against each other and against an independent walk over the raw
representation (tsv.model.refsearch).
"""
from collections import Counter

from tsv.base import Prop, fail, short
from tsv.gen import docgen
from tsv.props import common
from tsv.model import refsearch as R


def check_node(N, ctx, is_root, src=None):
    from TexSoup.data import TexNode
    E = N.expr
    contents = list(N.contents)
    ck = [R.key(x) for x in contents]
    via_all = [R.key(x) for x in E.all if not R.is_blank_text(x)]
    raw = [R.key(c) for c in R.visible(E)]
    ctx.count('nodes_checked')
    ctx.seen('node_class', type(E).__name__)
    if ck != via_all:
        return fail('contents!=all', '%s: contents is not expr.all minus blank text (%d vs %d elements)'
                    % (short(str(N), 60), len(ck), len(via_all)))
    if ck != raw:
        return fail('contents!=raw', '%s: contents differs from the raw content list (%d vs %d elements)'
                    % (short(str(N), 60), len(ck), len(raw)))
    children = list(N.children)
    if any(not isinstance(c, TexNode) for c in children) or \
            [R.key(c) for c in children] != [R.key(x) for x in contents if isinstance(x, TexNode)]:
        return fail('children', '%s: children is not contents without text' % short(str(N), 60))
    it = list(iter(N))
    if [R.key(x) for x in it] != ck:
        return fail('iteration', '%s: iteration does not follow contents' % short(str(N), 60))
    for i in range(-len(ck), len(ck)):
        if R.key(N[i]) != ck[i]:
            return fail('indexing', '%s: node[%d] is not contents[%d]' % (short(str(N), 60), i, i))
    # slices follow contents too: same elements, same kind of object
    sliced = []
    for sl in (slice(None), slice(1, None), slice(None, -1), slice(None, None, 2),
               slice(None, None, -1), slice(1, 3), slice(-2, None)):
        got = N[sl]
        ctx.count('slices_checked')
        if [R.key(x) for x in got] != ck[sl] or \
                [isinstance(x, TexNode) for x in got] != [isinstance(x, TexNode) for x in contents[sl]]:
            return fail('indexing', '%s: node[%r] is not contents[%r] (%d vs %d elements, kinds %r)'
                        % (short(str(N), 60), sl, sl, len(got), len(ck[sl]),
                           [type(x).__name__ for x in got][:4]))
        sliced += list(got)
    for view, seq in (('contents', contents), ('children', children), ('iter', it),
                      ('index', [N[i] for i in range(-len(ck), len(ck))]), ('slice', sliced)):
        for x in seq:
            if isinstance(x, TexNode):
                ctx.count('parent_links_checked')
                if x.parent is not N:
                    return fail('parent', 'element %s reached through %s of %s has parent %s'
                                % (short(str(x), 40), view, short(str(N), 40),
                                   short(repr(x.parent), 40)))
    desc = list(N.descendants)
    exp = R.closure(E)
    if Counter(R.key(d) for d in desc) != Counter(R.key(c) for c in exp):
        return fail('descendants', '%s: descendants (%d) is not the transitive closure of contents (%d), each once'
                    % (short(str(N), 60), len(desc), len(exp)))
    text = [R.key(t) for t in N.text]
    exp_text = [R.key(c) for c in exp if R.is_text(c)]
    if text != exp_text:
        return fail('text', '%s: text lists %d leaves, closure has %d non-blank text leaves in this order: %s'
                    % (short(str(N), 60), len(text), len(exp_text),
                       short(repr([str(R.leaf_token(c)) for c in exp if R.is_text(c)]), 120)))
    if is_root:
        if ''.join(map(str, E.all)) != src:
            return fail('root-all', 'the root content list does not concatenate to the document')
        if ''.join(str(x) for x in N.all) != src:
            return fail('root-all', 'soup.all does not concatenate to the document')
        for d in desc:
            if isinstance(d, TexNode):
                hops, n = 0, d
                while n.parent is not None and hops < 1000:
                    if R.key(n) not in [R.key(c) for c in R.visible(n.parent.expr)]:
                        return fail('parent', 'descendant %s is not in the contents of its parent %s'
                                    % (short(str(n), 40), short(str(n.parent), 40)))
                    n = n.parent
                    hops += 1
                ctx.count('parent_walks')
                if n is not N:
                    return fail('parent', 'walking parents from %s ends at %s, not at the root'
                                % (short(str(d), 40), short(repr(n), 40)))
    return None


def all_nodes(N):
    """every TexNode reachable through contents, recursively"""
    from TexSoup.data import TexNode
    yield N
    for c in N.contents:
        if isinstance(c, TexNode):
            yield from all_nodes(c)


class C04(Prop):
    id = 'C04'
    level = 'exploration'
    rule = ('cases: W1 documents; the seven relations of the statement are '
            'evaluated at every node of every tree (root included); '
            'non-trivial = the tree has >= 5 nodes and nesting >= 2; distinct '
            '= by source text')
    assumptions = (
        'the complete content list is expr.all as the statement says; '
        'TexNode.all is only required at the root',
        'identity of text leaves = identity of the token they carry',
    )
    probes = ('reach',)
    probed_every = 10
    reach_required = ['data.TexNode.contents', 'data.TexNode.children', 'data.TexNode.text', 'data.TexNode.all', 'data.TexExpr.contents', 'data.TexExpr.children', 'data.TexNode.__iter__', 'data.TexNode.__getitem__']
    min_nontrivial = 500
    budget_s = {'quick': 240, 'thorough': 3000}

    def cases(self, tier, seed, want):
        n = 7000 if tier == 'quick' else 150000
        yield from common.doc_cases(seed, n, want, 'c04',
                                    lambda j: common.cfg_general(j, tier))

    def nontrivial(self, p):
        ast = docgen.totuple(p['ast'])
        return sum(1 for _ in docgen.walk(ast)) >= 5 and docgen.depth(ast) >= 2

    def sample(self, p):
        return {'src': short(p['src'], 240)}

    def check(self, p, ctx):
        src = p['src']
        soup = common.parse(src)
        for i, N in enumerate(all_nodes(soup)):
            f = check_node(N, ctx, i == 0, src)
            if f:
                return [f]
        return []

    def shrink(self, p, still_fails):
        return common.shrink_doc(p, still_fails, budget=150)

    def gates(self, m, tier):
        g = []
        if m['counters'].get('nodes_checked', 0) < 30000:
            g.append('fewer than 30000 nodes checked')
        if m['counters'].get('parent_walks', 0) < 30000:
            g.append('fewer than 30000 parent walks')
        if len(m['sets'].get('node_class', ())) < 8:
            g.append('fewer than 8 node classes visited')
        return g


PROP = C04()
