"""C13 - recorded source positions are true offsets.

Boundary oracle over generated executions: for every node, argument group and
text token of W1 parses the source at `position` starts with the node's text
(and with the construct's opening delimiter); `char_pos_to_line(i)` is compared
with the closed form for *every* offset; every `search_regex` match must be
the source slice at its reported offset (and the matches must be exactly the
matches of the text leaves).  Exhaustive part: every string over {a, LF} up to
the length bound, every offset.
"""
import itertools
import random
import re

from tsv.base import Prop, fail, short
from tsv.gen import docgen
from tsv.props import common

REGEXES = [r'\w+', r'[a-z]', r'\d+', r'[ \t]+', r'lorem', r'.', r'\S+\s',
           r'(?<=a)b', r'o+', r'$', r'[\n]+']


def line_col(src, i):
    return (src.count('\n', 0, i), i - (src.rfind('\n', 0, i) + 1))


LF_SEPS = ['', ' ', '  ', '\t', '\n', ' \n', '\n ', ' \n\t', '\t\n  ']


def opener_of(el):
    from TexSoup.data import (TexCmd, TexNamedEnv, BraceGroup, BracketGroup,
                              TexEnv, TexText)
    if isinstance(el, TexText):
        return None
    if isinstance(el, TexCmd):
        return '\\'
    if isinstance(el, TexNamedEnv):
        return '\\begin'
    if isinstance(el, TexEnv):
        return el.begin
    return None


def check_positions(soup, src, ctx, exact=True):
    from TexSoup.data import TexExpr, TexText
    from TexSoup.utils import Token
    for cont, where, idx, el in common.raw_nodes(soup.expr):
        if isinstance(el, TexText):
            el = el._text
        if isinstance(el, Token):
            pos, text, opener = el.position, str(el), None
            f = check_token_api(el, src, ctx)
            if f:
                return f
        elif isinstance(el, TexExpr):
            pos, text, opener = el.position, str(el), opener_of(el)
            if not exact:
                # blanks before argument groups are not part of the printed
                # node: only its first characters can be compared
                text = opener or text[:1]
                if hasattr(el, 'name') and opener == '\\' and str(el.name).isalpha():
                    text = '\\' + str(el.name)
        else:
            continue
        ctx.count('positions_checked')
        ctx.seen('positioned_class', type(el).__name__)
        if not isinstance(pos, int) or pos < 0 or not src.startswith(text, pos):
            return fail('position', '%s records position %r but its text %s is not there (source has %s)'
                        % (type(el).__name__, pos, short(repr(text), 60),
                           short(repr(src[pos:pos + 20]) if isinstance(pos, int) else '?', 60)))
        if opener and not src.startswith(opener, pos):
            return fail('position', '%s at %d does not start with %r' % (
                type(el).__name__, pos, opener))
    return None


def check_token_api(tok, src, ctx):
    """position propagation through slicing / stripping / iteration / concat"""
    text = str(tok)
    n = len(text)
    if n == 0 or n > 40:
        return None
    derived = [('strip', tok.strip()), ('lstrip', tok.lstrip()),
               ('rstrip', tok.rstrip()), ('[1:]', tok[1:]), ('[-1]', tok[-1]),
               ('[:-1]', tok[:-1]), ('[n//2]', tok[n // 2])]
    if n >= 2:      # only in-range slice bounds (over-range ones are clamped
        derived.append(('[-2:]', tok[-2:]))   # by str, not by Token)
    derived += [('iter[%d]' % i, c) for i, c in enumerate(tok)][:6]
    for how, d in derived:
        s = str(d)
        if s == '':
            continue
        ctx.count('token_api_positions_checked')
        if not src.startswith(s, d.position):
            return fail('token-api-position', 'token %r at %r: %s gives %r at %r'
                        % (text, tok.position, how, s, d.position))
    r = 'xy' + tok
    if r.position != tok.position - 2 or (tok + 'z').position != tok.position:
        return fail('token-api-position', 'concatenation moved the position of %r' % text)
    return None


def _offsets(src):
    """every offset of a short source; for a long one (the conversion is
    linear in the offset, five passes over every offset would be quadratic)
    every line boundary, its neighbours and an even sample of ~600 others"""
    n = len(src)
    if n <= 1200:
        return list(range(n))
    keep = set(range(0, n, max(1, n // 600))) | {n - 1}
    for i, c in enumerate(src):
        if c == '\n':
            keep.update(j for j in (i - 1, i, i + 1) if 0 <= j < n)
    return sorted(keep)


def check_linecol(soup, src, ctx):
    offs = _offsets(src)
    for i in offs:
        got = soup.char_pos_to_line(i)
        exp = line_col(src, i)
        if tuple(got) != exp:
            return fail('line-col', 'char_pos_to_line(%d) = %r, character %r stands at %r in %s'
                        % (i, tuple(got), src[i], exp, short(repr(src), 80)))
    ctx.count('offsets_checked', len(offs))
    # the conversion must not depend on the order of lookups: descending, a
    # seeded shuffle, and "jump forward, then step back one" sequences
    import random as _r
    n = len(src)
    orders = [offs[::-1]]
    sh = list(offs)
    _r.Random(n).shuffle(sh)
    orders.append(sh)
    orders.append([j for i in offs for j in (min(i + 2, n - 1), i)] if n else [])
    for order in orders:
        for i in order:
            got = soup.char_pos_to_line(i)
            if tuple(got) != line_col(src, i):
                return fail('line-col', 'char_pos_to_line(%d) = %r after other lookups, character %r stands at %r in %s'
                            % (i, tuple(got), src[i], line_col(src, i), short(repr(src), 80)))
    ctx.count('offsets_checked_in_other_orders', 4 * len(offs))
    return None


def check_regex(soup, src, ctx):
    leaves = list(soup.text)
    for pat in REGEXES:
        got = list(soup.search_regex(pat))
        exp = sum(len(list(re.finditer(pat, str(t)))) for t in leaves)
        if len(got) != exp:
            return fail('regex-matches', 'search_regex(%r) yields %d matches, the text leaves contain %d'
                        % (pat, len(got), exp))
        # exact oracle: the k-th reported match is the k-th match of the text
        # leaves in document order, at leaf offset + match start (an offset
        # where merely the same text occurs elsewhere is not accepted)
        want = [(m.group(), t.position + m.start()) for t in leaves
                for m in re.finditer(pat, str(t))]
        for m, (wtext, wpos) in zip(got, want):
            ctx.count('regex_matches_checked')
            p = m.position
            if not isinstance(p, int) or src[p:p + len(m)] != str(m):
                return fail('regex-offset', 'search_regex(%r): match %r reported at %r, source has %r'
                            % (pat, str(m), p, src[p:p + len(m)] if isinstance(p, int) else None))
            if str(m) != wtext or p != wpos:
                return fail('regex-offset', 'search_regex(%r): match %r reported at %r, it occurs at %r'
                            % (pat, str(m), p, wpos))
    return None


class C13(Prop):
    id = 'C13'
    level = 'exploration'
    rule = ('cases: (i) every string over {a, LF} up to the length bound '
            '(exhaustive), every offset through char_pos_to_line; (ii) W1 '
            'documents with LF line structure: every node / group / text '
            'token position, every offset, 11 regexes over all text leaves; (iii) '
            'such documents with blanks / a line break before argument groups '
            '(the printed tree is shorter than the source): every offset, '
            'every token position, the first characters of every node; '
            'non-trivial = >= 2 lines or >= 3 construct kinds; distinct = by '
            'source text')
    assumptions = (
        'positions are compared on a freshly parsed, unedited tree',
        'text wrappers (TexText) record no position themselves; the token '
        'they wrap does, and that is what the navigation API hands out',
    )
    probes = ('reach',)
    probed_every = 10
    # safety net only: under the line-level reach monitor of the probed pass a
    # long document of the thorough tier can take more than the default 30 s
    case_alarm = 300
    reach_required = ['category.categorize', 'utils.Token.__add__', 'utils.Token.__radd__', 'utils.Token.__getitem__', 'utils.Token.lstrip', 'utils.Token.rstrip', 'utils.CharToLineOffset.__call__', 'data.TexNode.search_regex', 'data.TexNode.char_pos_to_line']
    min_nontrivial = 1000
    budget_s = {'quick': 240, 'thorough': 3000}
    exhaustive = {
        'quick': 'all strings over {a, LF} of length <= 10, every offset',
        'thorough': 'all strings over {a, LF} of length <= 13, every offset',
    }

    def cases(self, tier, seed, want):
        L = 10 if tier == 'quick' else 13
        k = 0
        for n in range(0, L + 1):
            for tup in itertools.product('a\n', repeat=n):
                k += 1
                if want(k):
                    yield k, {'src': ''.join(tup), 'lines_only': True}
        n = 12000 if tier == 'quick' else 180000
        yield from common.doc_cases(seed, n, want, 'c13',
                                    lambda j: common.cfg_general(j, tier), k0=k)
        # (iii) the same kind of documents with blanks / one line break before
        # argument groups: the tree does not keep those characters, so the
        # printed tree is shorter than the source - offsets must still refer
        # to the source
        k += n
        m = 2500 if tier == 'quick' else 35000
        for j in range(m):
            k += 1
            if not want(k):
                continue
            rng = random.Random('%d/%d/c13s' % (seed, j))
            src, ast = docgen.gen_doc(rng, common.cfg_general(j, tier))
            # LF line structure (the statement's domain): blanks and at most
            # one LF before a group - a CR LF pair would be two line ends and
            # detach the argument
            yield k, {'src': docgen.render_spaced(ast, rng, LF_SEPS), 'spaced': True}

    def nontrivial(self, p):
        if p.get('spaced'):
            return True
        if p.get('lines_only'):
            return '\n' in p['src']
        return len(docgen.kinds(docgen.totuple(p['ast']))) >= 3

    def sample(self, p):
        return {'src': short(p['src'], 240)}

    def check(self, p, ctx):
        src = p['src']
        if p.get('spaced'):
            try:
                soup = common.parse(src)
            except (EOFError, TypeError, AssertionError):
                ctx.count('spaced_documents_rejected')
                return []
            ctx.count('spaced_documents')
            if str(soup) != src:
                ctx.count('spaced_documents_printed_shorter')
            f = check_linecol(soup, src, ctx) or check_positions(soup, src, ctx, exact=False) \
                or check_regex(soup, src, ctx)
            return [f] if f else []
        soup = common.parse(src)
        f = check_linecol(soup, src, ctx)
        if f:
            return [f]
        if p.get('lines_only'):
            ctx.count('line_structure_strings')
            return []
        f = check_positions(soup, src, ctx) or check_regex(soup, src, ctx)
        return [f] if f else []

    def shrink(self, p, still_fails):
        if p.get('lines_only') or p.get('spaced'):
            return common.shrink_text(p, still_fails)
        return common.shrink_doc(p, still_fails)

    def gates(self, m, tier):
        g = []
        c = m['counters']
        if c.get('spaced_documents_printed_shorter', 0) < 300:
            g.append('fewer than 300 documents whose printed tree is shorter than the source')
        if c.get('positions_checked', 0) < 50000:
            g.append('fewer than 50000 node positions checked')
        if c.get('regex_matches_checked', 0) < 50000:
            g.append('fewer than 50000 regex matches checked')
        if c.get('token_api_positions_checked', 0) < 50000:
            g.append('fewer than 50000 derived-token positions checked')
        if len(m['sets'].get('positioned_class', ())) < 9:
            g.append('fewer than 9 node classes with positions observed')
        return g


PROP = C13()
