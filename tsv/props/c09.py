"""C09 - arguments attach by the one-line-break rule with exact contents.

Constructed inputs with known separators: ctx0 + \\name + (sep_i group_i)* +
tail + ctx1.  From the construction: the attached arguments are the maximal
prefix of groups whose separators are all attaching; each attached group's
contents are exactly the characters between its delimiters; the detached
remainder and the tail follow the command verbatim in the serialised text.
"""
import itertools
import random

from tsv.base import Prop, fail, short
from tsv.props import common

NAME = 'qq'
# names outside the signature table that are easy to confuse with its entries
# (starred / suffixed / re-cased variants) or with the structural keywords
NAMES = ['qq', 'qq', 'qq*', 'q', 'section*', 'textbf*', 'label*', 'def*', 'cup*',
         'in*', 'noindent*', 'infty*', 'Section', 'sectionx', 'textbfx', 'labels',
         'item*', 'itemx', 'begin*', 'end*', 'newcommand*', 'leftx', 'bigx',
         'subsection', 'textit', 'ref', 'frac']
ATTACH = ['', ' ', '  ', '\t', '\n', ' \n', '\n ', ' \t\n\t ']
DETACH = ['\n\n', ' \n \n', ',', '.', '%c\n', '\n\n\n', ' \n\n ', '!', '%\n', '%\n  ', ' %\n']
ATTACH_R = ['', ' ', '\n', ' \n ']
DETACH_R = ['\n\n', ',', '%c\n', '%\n']
BRACE_BODIES = ['a', '', 'x y', '{b}', ']', '[', '[x', 'a]b', '\\bar{z}', 'a\nb',
                '$m$', '\\%', '{]}', '[[', '\\bar[o]{z}', ' ', '\n', '%c\n',
                'p q {r} \\bar{z} ] s', 'a b c d ] e [ f', '{u} {v} ] {w}']
BRACKET_BODIES = ['a', '', 'x y', '{]}', '{[}', '[', '(', '{a]}', '\\bar{z}',
                  '{b}', 'a\nb', '\\bar[o]', '$m$', '\\]x' if False else 'k']
TAILS = ['', ' tail', '.x', '\n\nzz', 'x', ' \n', '\\other', '(1)',
         # blanks, then a bracket: only legal after an attached brace group (see legal())
         ' [b] x', '\t[b]{d}', '\n[q] r', ' [u', ' \n [v]']
CONTEXTS = {
    'top': ('', ''),
    'top-text': ('pre ', ' post'),
    'group': ('{g ', ' h}'),
    'env': ('\\begin{center}e ', ' f\\end{center}'),
    'math$': ('$x ', ' y$'),
    'math$$': ('$$x ', ' y$$'),
    'math\\(': ('\\(x ', ' y\\)'),
    'math\\[': ('\\[x ', ' y\\]'),
    'mathenv': ('\\begin{align}x ', ' y\\end{align}'),
    'brace-arg': ('\\outer{p ', ' q}'),
    'bracket-arg': ('\\outer[p ', ' q]'),
    'item-first': ('\\begin{itemize}\\item ', ' z\\end{itemize}'),
    'item-second': ('\\begin{itemize}\\item first\n\\item ', ' z\\end{itemize}'),
    'after-end': ('\\begin{center}c\\end{center}', ' w'),
    'after-item-head': ('\\begin{enumerate}\\item', '\\end{enumerate}'),
}


def attaching(sep):
    """spaces/tabs containing at most one line break (the statement's rule)"""
    return sep.strip(' \t') in ('', '\n') and sep.count('\n') <= 1


def build(ctx, groups, seps, tail, NAME=NAME):
    """groups: [(kind, body)], seps: one per group.  -> (src, expected dict)"""
    c0, c1 = CONTEXTS[ctx]
    src = c0 + '\\' + NAME
    attached = []
    still = True
    rest = ''
    for (kind, body), sep in zip(groups, seps):
        text = ('[%s]' if kind == 'o' else '{%s}') % body
        if still and attaching(sep):
            attached.append((kind, body))
        else:
            still = False
        if not still:
            rest += sep + text
        src += sep + text
    src += tail + c1
    out = c0 + '\\' + NAME + ''.join(('[%s]' if k == 'o' else '{%s}') % b
                                      for k, b in attached) + rest + tail + c1
    return src, attached, out


def legal(ctx, groups, seps, tail):
    """side conditions of the construction (they narrow the domain only)"""
    # the tail must not itself start a group the command could take
    detached = False
    for (kind, body), sep in zip(groups, seps):
        if not attaching(sep):
            detached = True
        if ctx == 'bracket-arg' and detached and kind == 'o':
            return False     # a detached ']' would close the outer bracket
        if ctx == 'bracket-arg' and kind == 'r' and ']' in body and '{' not in body:
            pass
    if ctx == 'bracket-arg' and tail == '(1)':
        pass
    # a bracket after blanks: text only if the run so far ended in an attached
    # brace group (after the name or a bracket group it would still attach)
    if tail.lstrip(' \t\n').startswith('[') and tail[:1] in ' \t\n':
        if not groups or groups[-1][0] != 'r' or ctx == 'bracket-arg':
            return False
        if not all(attaching(s) for s in seps):
            return True
    # the characters right after the name must not extend the name
    if not groups and (tail[:1].isalpha() or tail[:1] == '*'):
        return False
    return True


class C09(Prop):
    id = 'C09'
    level = 'exploration'
    rule = ('cases: a command not in the signature table (\\qq; in the random part 25 names incl. '
            'starred / suffixed variants of table entries and of the structural keywords) with 0..3 bracket '
            'groups then 0..4 brace groups, a separator before each group '
            '(8 attaching, 11 detaching kinds incl. the empty comment), group bodies with nested and '
            'unbalanced foreign delimiters, 8 tails, 15 enclosing contexts; '
            'exhaustive for <= 3 groups over 4+4 separators x all contexts '
            'with simple bodies, seeded random beyond; plus bare brackets in '
            'text in every context. non-trivial = at least one group; '
            'distinct = by content')
    assumptions = (
        'bracket groups come before brace groups (the statement\'s "bracket '
        'groups followed by brace groups")',
        'in a bracket-argument context no detached bracket group is generated '
        '(its "]" would close the enclosing argument)',
    )
    probes = ('read', 'reach')
    probed_every = 10
    reach_required = ['tokens.tokenize_spacers', 'reader.read_arg_optional', 'reader.read_arg_required', 'reader.read_arg', 'tokens.tokenize_symbols']
    min_nontrivial = 2000
    budget_s = {'quick': 240, 'thorough': 2400}
    exhaustive = {
        'quick': 'all (kinds, separators) for <= 3 groups over 4 attaching + 4 '
                 'detaching separators in all 15 contexts',
        'thorough': 'all (kinds, separators) for <= 3 groups over 4 attaching + 4 '
                    'detaching separators in all 15 contexts, 3 body sets',
    }

    def cases(self, tier, seed, want):
        k = 0
        seps = ATTACH_R + DETACH_R
        bodysets = [('a', 'a')] if tier == 'quick' else [('a', 'a'), ('{]}', '['), ('', '\\bar{z}')]
        for ctx in CONTEXTS:
            for g in range(0, 4):
                for no in range(0, g + 1):
                    kinds = ['o'] * no + ['r'] * (g - no)
                    for ss in itertools.product(seps, repeat=g):
                        for ob, rb in bodysets:
                            k += 1
                            if not want(k):
                                continue
                            groups = [(kd, ob if kd == 'o' else rb) for kd in kinds]
                            if legal(ctx, groups, ss, ' tail'):
                                yield k, {'ctx': ctx, 'groups': groups, 'seps': list(ss),
                                          'tail': ' tail'}
        n = 15000 if tier == 'quick' else 400000
        ctxs = list(CONTEXTS)
        for j in range(n):
            k += 1
            if not want(k):
                continue
            rng = random.Random('%d/%d/c09' % (seed, j))
            no, nr = rng.randint(0, 3), rng.randint(0, 4)
            groups = [('o', rng.choice(BRACKET_BODIES)) for _ in range(no)] + \
                     [('r', rng.choice(BRACE_BODIES)) for _ in range(nr)]
            ss = [rng.choice(ATTACH if rng.random() < .75 else DETACH) for _ in groups]
            ctx = rng.choice(ctxs)
            tail = rng.choice(TAILS)
            name = rng.choice(NAMES)
            if legal(ctx, groups, ss, tail):
                yield k, {'ctx': ctx, 'groups': groups, 'seps': ss, 'tail': tail,
                          'name': name}
        for ctx in CONTEXTS:
            for txt in ('a [ b', 'a ] b', '[', ']', 'x ]] [ y', 'f(x] = [0,1)'):
                k += 1
                if want(k):
                    if ctx == 'bracket-arg' and ']' in txt:
                        continue
                    # "a bracket that does not follow a command": in these
                    # contexts the text would directly follow \item / \end{..}
                    if ctx == 'after-item-head':
                        continue        # the text would extend the name \item
                    if txt.startswith('[') and ctx in (
                            'item-first', 'item-second', 'after-item-head', 'after-end'):
                        continue
                    yield k, {'ctx': ctx, 'bare': txt}

    def nontrivial(self, p):
        return bool(p.get('groups')) or 'bare' in p

    def sample(self, p):
        if 'bare' in p:
            return p
        return {'src': short(build(p['ctx'], [tuple(g) for g in p['groups']],
                                   p['seps'], p['tail'], p.get('name', NAME))[0], 200),
                'ctx': p['ctx']}

    def check(self, p, ctx):
        from TexSoup.data import BraceGroup, BracketGroup
        if 'bare' in p:
            c0, c1 = CONTEXTS[p['ctx']]
            src = c0 + p['bare'] + c1
            soup = common.parse(src)
            ctx.count('bare_bracket_cases')
            if str(soup) != src:
                return [fail('bare-bracket', 'bare brackets in %s: %s -> %s'
                             % (p['ctx'], short(repr(src)), short(repr(str(soup)))))]
            for _, _, _, el in common.raw_nodes(soup.expr):
                if isinstance(el, BracketGroup) and p['ctx'] != 'bracket-arg':
                    return [fail('bare-bracket', 'a bracket in text became a group in %s'
                                 % short(repr(src)))]
            return []
        groups = [tuple(g) for g in p['groups']]
        NAME = p.get('name', globals()['NAME'])
        src, attached, out = build(p['ctx'], groups, p['seps'], p['tail'], NAME)
        soup = common.parse(src)
        node = soup.find(NAME)
        ctx.seen('name', NAME)
        ctx.count('commands_checked')
        ctx.seen('context', p['ctx'])
        for i, s in enumerate(p['seps']):
            ctx.seen('separator_at', (i, s))
        ctx.seen('attached_count', len(attached))
        if node is None:
            return [fail('command-lost', 'command \\%s not found in %s' % (NAME, short(repr(src))))]
        got = []
        for a in node.args:
            kind = 'o' if isinstance(a, BracketGroup) else 'r' if isinstance(a, BraceGroup) else '?'
            got.append((kind, ''.join(map(str, a._contents))))
        if got != attached:
            return [fail('wrong-arguments', 'in %s the command has arguments %r, expected %r'
                         % (short(repr(src), 120), got, attached))]
        # the same contents through the public views of a group
        for a, (kind, body) in zip(node.args, attached):
            if str(a.string) != body or str(a) != ('[%s]' if kind == 'o' else '{%s}') % body:
                return [fail('wrong-arguments', 'in %s the group %r reports string %r / text %r'
                             % (short(repr(src), 120), body, str(a.string), str(a)))]
        if len(attached) == 1 and attached[0][0] == 'r':
            ctx.count('single_argument_string')
            try:
                whole = node.string
            except Exception as e:       # .string is defined for one brace argument
                whole = '%s: %s' % (type(e).__name__, e)
            if str(whole) != attached[0][1]:
                return [fail('wrong-arguments', 'in %s the command\'s .string is %r, its only argument holds %r'
                             % (short(repr(src), 120), str(whole), attached[0][1]))]
        if str(node) != '\\' + NAME + ''.join(('[%s]' if k == 'o' else '{%s}') % b for k, b in attached):
            return [fail('wrong-arguments', 'the command prints %r' % str(node))]
        if str(soup) != out:
            return [fail('remainder-not-verbatim', 'input %s -> %s, expected %s'
                         % (short(repr(src), 100), short(repr(str(soup)), 100),
                            short(repr(out), 100)))]
        return []

    def gates(self, m, tier):
        g = []
        if len(m['sets'].get('context', ())) < len(CONTEXTS):
            g.append('not every context exercised')
        if len(m['sets'].get('name', ())) < len(set(NAMES)):
            g.append('not every command name exercised')
        if len(m['sets'].get('separator_at', ())) < 60:
            g.append('fewer than 60 (position, separator) combinations')
        if len(m['sets'].get('attached_count', ())) < 8:
            g.append('attached counts 0..7 not all observed')
        if m['counters'].get('bare_bracket_cases', 0) < 50:
            g.append('bare bracket cases not run')
        return g


PROP = C09()
