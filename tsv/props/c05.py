"""C05 - structural edits are local to the targeted node.

String-splice oracle: one edit per fresh parse.  The expected text is the
source with the target's own span (node.position, len(str(node))) removed or
substituted, or with the new text spliced before element i of the container's
content list; every other character unchanged.  Documents are generated with
textual twins on purpose.  In the probed pass identity-based contracts on the
expression mutators (probe `edit`) and on TexArgs (probe `args`) run as well.
"""
import random

from tsv.base import Prop, fail, short
from tsv.gen import docgen
from tsv.props import common

NEW_SOURCES = ['\\new{v}', '\\begin{nenv}w\\end{nenv}', '\\nw[o]{p}', '$n$', '{g}']
NEW_STRINGS = ['NEW', ' ', '\n', 'some text ', 'x']


def cfg_edit(j):
    return docgen.Cfg(maxdepth=(2, 3, 3)[j % 3], size=(2, 3, 4)[j % 3],
                      twins=0.35 if j % 2 == 0 else 0.1,
                      cmd=['foo', 'bar', 'x'], env=['a', 'center'],
                      weights={'verb': 2, 'newcommand': 1, 'sig': 2, 'comment': 3})


def enum_nodes(soup):
    """[(node, parent)] for every non-root TexNode, depth first through
    `contents`; parents are the wrappers the node was reached from"""
    from TexSoup.data import TexNode
    out = []

    def rec(n):
        for c in n.contents:
            if isinstance(c, TexNode):
                out.append((c, n))
                rec(c)
    rec(soup)
    return out


def containers(soup):
    """nodes that support contents (root, environments, math, groups, items)"""
    out = [soup]
    for n, _ in enum_nodes(soup):
        if n.expr._supports_contents():
            out.append(n)
    return out


def located(parent, node):
    """'body' | 'arg' | None: where the node's expression object sits"""
    for a in parent.expr.args:
        if any(c is node.expr for c in getattr(a, '_contents', ())):
            return 'arg'
    if any(c is node.expr for c in parent.expr._contents):
        return 'body'
    return None


def make_new(spec, target=None):
    """spec: list of ['s', text] | ['n', source] | ['self', 'node'|'copy']
    (the replaced node itself is a legitimate piece of its replacement:
    `node.replace_with('(', node, ')')`)"""
    from TexSoup import TexSoup
    out, text = [], ''
    for kind, v in spec:
        if kind == 's':
            out.append(v)
            text += v
        elif kind == 'self':
            if target is None:
                continue
            out.append(target if v == 'node' else target.copy())
            text += str(target)
        else:
            node = TexSoup(v).contents[0].copy()
            out.append(node)
            text += v
    return out, text


def body_pieces(C):
    """(head, [content strings], tail) of a container's own text"""
    E = C.expr
    parts = [str(c) for c in E._contents]
    whole = str(E)
    body = ''.join(parts)
    if E.name == '[tex]':
        return '', parts, ''
    from TexSoup.data import TexCmd
    if isinstance(E, TexCmd):
        return whole[:len(whole) - len(body)], parts, ''
    end = str(E.end)
    return whole[:len(whole) - len(body) - len(end)], parts, end


def twin_count(soup, node):
    s = str(node)
    return sum(1 for n, _ in enum_nodes(soup) if str(n) == s)


class C05(Prop):
    id = 'C05'
    level = 'exploration'
    rule = ('cases: W1 documents with textual twins; per document every '
            'non-root node x {delete, replace_with(1..3 items), '
            'parent.remove, parent.replace}, every container x every index '
            '0..len x insert, append, identity-addressed removal of text '
            'leaves, and the four removal/replacement operations on every '
            'body element reached through the `.all` view (text runs and '
            'blanks included); one edit per fresh parse. non-trivial = the target has a '
            'textual twin or sits in an argument, or the insertion index is '
            'interior (append: non-empty container); distinct = by (source, operation)')
    assumptions = (
        'positions of the fresh parse are true offsets (C13)',
        'parent.remove(child) is only issued for children in the parent\'s '
        'body (arguments are edited through delete/replace)',
    )
    probes = ('edit', 'args', 'reach')
    probed_every = 5
    reach_required = ['data.TexNode.delete', 'data.TexNode.replace', 'data.TexNode.replace_with', 'data.TexNode.remove', 'data.TexNode.insert', 'data.TexNode.append', 'data.TexExpr.remove', 'data.TexExpr.insert', 'data.TexExpr.append', 'data.TexNode._container_of']
    min_nontrivial = 1000
    budget_s = {'quick': 240, 'thorough': 3000}

    def cases(self, tier, seed, want):
        from TexSoup import TexSoup
        ndocs = 420 if tier == 'quick' else 5000
        k = 0
        for j in range(ndocs):
            rng = random.Random('%d/%d/c05' % (seed, j))
            src, ast = docgen.gen_doc(rng, cfg_edit(j))
            if len(src) > 260 or len(src) < 3:
                continue
            try:
                soup = TexSoup(src)
                nodes = enum_nodes(soup)
                conts = containers(soup)
                lens = [len(c.expr._contents) for c in conts]
                texts = [(ci, i) for ci, c in enumerate(conts)
                         for i, e in enumerate(c.expr._contents)
                         if not hasattr(e, 'args') or type(e).__name__ == 'TexText']
            except Exception:
                k += 1
                if want(k):
                    yield k, {'src': src, 'op': 'parse'}
                continue

            def new():
                spec = []
                for _ in range(rng.randint(1, 3)):
                    if rng.random() < .5:
                        spec.append(['s', rng.choice(NEW_STRINGS)])
                    else:
                        spec.append(['n', rng.choice(NEW_SOURCES)])
                return spec
            strs = [str(n) for n, _ in nodes]
            for t in range(len(nodes)):
                nt = strs.count(strs[t]) > 1 or located(nodes[t][1], nodes[t][0]) == 'arg'
                for op in ('delete', 'replace_with', 'remove', 'replace'):
                    k += 1
                    spec = new()
                    if op.startswith('replace') and rng.random() < .15:
                        # the target itself (or its copy) among the pieces,
                        # and the empty string as a piece
                        spec.insert(rng.randrange(len(spec) + 1),
                                    rng.choice([['self', 'node'], ['self', 'copy'], ['s', '']]))
                    if want(k):
                        yield k, {'src': src, 'op': op, 'target': t, 'new': spec, 'nt': nt}
            for ci, n in enumerate(lens):
                # every position, plus negative and out-of-range indices
                # (resolved like list.insert: from the end / clamped)
                for i in list(range(n + 1)) + [-1, -2, -n, -n - 3, n + 3]:
                    k += 1
                    spec = new()
                    if want(k):
                        yield k, {'src': src, 'op': 'insert', 'container': ci,
                                  'index': i, 'new': spec,
                                  'nt': 0 < i < n or -n < i < 0}
                k += 1
                spec = new()
                if want(k):
                    yield k, {'src': src, 'op': 'append', 'container': ci, 'new': spec,
                              'nt': n > 0}
            for ci, i in texts[:12]:
                k += 1
                if want(k):
                    parts = [str(e) for e in conts[ci].expr._contents]
                    yield k, {'src': src, 'op': 'remove-leaf', 'container': ci, 'index': i,
                              'nt': parts.count(parts[i]) > 1}
            # targets reached through the `.all` view, the only view that
            # hands out text runs (blank ones included) as nodes
            textset = set(texts)
            for ci, n in enumerate(lens):
                parts = [str(e) for e in conts[ci].expr._contents]
                for i in range(n):
                    ops = ('delete', 'replace_with', 'remove', 'replace')
                    if (ci, i) not in textset:
                        ops = (ops[rng.randrange(4)],)
                    for op in ops:
                        k += 1
                        spec = new()
                        if want(k):
                            yield k, {'src': src, 'op': 'all-' + op, 'container': ci,
                                      'index': i, 'new': spec,
                                      'nt': parts.count(parts[i]) > 1}

    def nontrivial(self, p):
        return bool(p.get('nt'))

    def sample(self, p):
        return {k: (short(v, 160) if k == 'src' else v) for k, v in p.items()}

    def check(self, p, ctx):
        from TexSoup import TexSoup
        src = p['src']
        soup = TexSoup(src)
        op = p['op']
        if op == 'parse':
            return []
        ctx.count('op:' + op)
        if op in ('delete', 'replace_with', 'remove', 'replace'):
            nodes = enum_nodes(soup)
            node, parent = nodes[p['target']]
            where = located(parent, node)
            if where is None:
                return [fail('setup', 'target not found in its parent by identity')]
            pos, old = node.position, str(node)
            if src[pos:pos + len(old)] != old:
                return [fail('setup', 'target position is not a true offset (C13)')]
            twins = twin_count(soup, node)
            if twins > 1:
                ctx.count('targets_with_twin')
            ctx.seen('target_location', (where, type(parent.expr).__name__))
            if op == 'delete':
                node.delete()
                expected = src[:pos] + src[pos + len(old):]
            elif op == 'remove':
                if where != 'body':
                    ctx.count('remove_skipped_target_in_argument')
                    return []
                parent.remove(node)
                expected = src[:pos] + src[pos + len(old):]
            else:
                new, text = make_new(p['new'], node)
                if any(k == 'self' for k, _ in p['new']):
                    ctx.count('replacements_containing_the_target')
                if op == 'replace_with':
                    node.replace_with(*new)
                else:
                    parent.replace(node, *new)
                expected = src[:pos] + text + src[pos + len(old):]
            got = str(soup)
            if got != expected:
                return [fail('edit-not-local', '%s of %s (%d look-alikes) in %s gives %s, expected %s'
                             % (op, short(repr(old), 40), twins, short(repr(src), 100),
                                short(repr(got), 100), short(repr(expected), 100)))]
            return []
        conts = containers(soup)
        C = conts[p['container']]
        pos, whole = (0, src) if C is soup else (C.position, str(C))
        head, parts, tail = body_pieces(C)
        if head + ''.join(parts) + tail != whole or src[pos:pos + len(whole)] != whole:
            return [fail('setup', 'container text does not decompose')]
        ctx.seen('container_class', type(C.expr).__name__)
        if op.startswith('all-'):
            i = p['index']
            try:
                alls = list(C.all)
            except AssertionError:
                # TexNode.all refuses nodes whose arguments hold bare strings
                ctx.count('all_view_unavailable')
                return []
            off = len(alls) - len(parts)
            if off < 0 or str(alls[off + i]) != parts[i]:
                return [fail('setup', '.all does not end with the body contents')]
            node = alls[off + i]
            if sum(1 for x in parts if x == parts[i]) > 1:
                ctx.count('targets_with_twin')
                ctx.count('all_targets_with_twin')
            ctx.seen('all_target_class', type(C.expr._contents[i]).__name__)
            text = ''
            if op == 'all-delete':
                node.delete()
            elif op == 'all-remove':
                C.remove(node)
            else:
                new, text = make_new(p['new'])
                if op == 'all-replace_with':
                    node.replace_with(*new)
                else:
                    C.replace(node, *new)
            inner = ''.join(parts[:i]) + text + ''.join(parts[i + 1:])
        elif op == 'remove-leaf':
            i = p['index']
            leaf = C.expr._contents[i]
            if sum(1 for x in parts if x == parts[i]) > 1:
                ctx.count('targets_with_twin')
            C.expr.remove(leaf)
            inner = ''.join(parts[:i] + parts[i + 1:])
        else:
            new, text = make_new(p['new'])
            if op == 'insert':
                i = p['index']
                C.insert(i, *new)
                if i < 0:
                    ctx.count('negative_insert_index')
                    i = max(len(parts) + i, 0)
                elif i > len(parts):
                    ctx.count('overlong_insert_index')
                    i = len(parts)
                ctx.seen('index_class', 'first' if i == 0 else 'end' if i == len(parts) else 'interior')
            else:
                i = len(parts)
                C.append(*new)
            inner = ''.join(parts[:i]) + text + ''.join(parts[i:])
        expected = src[:pos] + head + inner + tail + src[pos + len(whole):]
        got = str(soup)
        if got != expected:
            return [fail('edit-not-local', '%s at %s in %s of %s gives %s, expected %s'
                         % (op, p.get('index'), type(C.expr).__name__, short(repr(src), 100),
                            short(repr(got), 100), short(repr(expected), 100)))]
        return []

    def gates(self, m, tier):
        g = []
        c = m['counters']
        for op in ('delete', 'replace_with', 'remove', 'replace', 'insert', 'append', 'remove-leaf'):
            if c.get('op:' + op, 0) < 300:
                g.append('operation %s issued fewer than 300 times' % op)
        if c.get('replacements_containing_the_target', 0) < 50:
            g.append('fewer than 50 replacements that contain the replaced node itself')
        if c.get('all_targets_with_twin', 0) < 100:
            g.append('fewer than 100 edits through the .all view aimed at a target with a twin')
        if c.get('targets_with_twin', 0) < 500:
            g.append('fewer than 500 edits aimed at a target with a textual twin')
        locs = set(m['sets'].get('target_location', ()))
        if len(locs) < 8:
            g.append('targets in fewer than 8 (location, parent class) combinations')
        if c.get('negative_insert_index', 0) < 200 or c.get('overlong_insert_index', 0) < 50:
            g.append('negative / out-of-range insertion indices issued too rarely')
        if len(m['sets'].get('index_class', ())) < 3:
            g.append('insertion index classes first/interior/end not all seen')
        if c.get('probe:edit.remove', 0) < 100 or c.get('probe:edit.insert', 0) < 100:
            g.append('identity contracts on the mutators evaluated too rarely')
        return g


PROP = C05()
