"""C10 - comments are inert.

Metamorphic oracle (payload substitution): a template document with a hole;
the hole is filled with k backslashes + '%' + payload + line break.  For even
k the tree must contain exactly one comment leaf equal to '%payload', the tree
shape must not depend on the payload, names occurring only in the payload are
never found, and the text round-trips.  For odd k the '%' is an escaped
percent sign: the document must behave exactly like the same document with
'\\&' in place of '\\%'.
"""
import random

from tsv.base import Prop, fail, short
from tsv.gen import docgen
from tsv.model import tree2ast
from tsv.model.align import only_ws_before_openers_removed
from tsv.props import common

DIAG = (EOFError, TypeError, AssertionError)
ALPHA = ['{', '}', '[', ']', '$', '$$', '\\', '\\begin{xenv}', '\\end{yenv}',
         '\\item', '%', ' ', '  ', 'a', 'word', '\\ghost', '\\ghost{z}', '\\[',
         '\\)', '\\begin{verbatim}', '\\end{itemize}', '\\end{center}', '\t',
         '\\%', '\\\\', 'é', '\\end{verbatim}', '\\end{lstlisting}', '\\end{equation}',
         '\\end{document}', '\\end{Verbatim}', '\\begin{equation}', '\\]', '\\end',
         # literals that also occur outside the comment in some contexts
         '\\keep{1}', '\\keep', '\\begin{center}', '\\outer{p ',
         # line boundaries for str.splitlines(), ordinary characters for the parser
         '\x0b', '\x0c', '\x1c', '\x1d', '\x1e', '\x85', '\u2028', '\u2029', '\xa0']
GHOSTS = ['ghost', 'xenv', 'yenv', 'verbatim', 'end', 'lstlisting', 'document']
# every form of search (find_all / count / find / attribute access), by name,
# by list of names and by full expression, must be blind to the payload
QUERIES = GHOSTS + ['keep', 'outer', 'center', 'item', 'equation', 'begin',
                    '\\ghost{z}', '\\keep{1}', '\\keep{2}', '\\begin{xenv}',
                    '\\begin{center}', '\\begin{verbatim}', '\\begin{equation}',
                    '\\outer{p ', ['ghost', 'keep'], ['xenv', 'yenv', 'end']]
GHOST_QUERIES = GHOSTS + ['\\ghost{z}', '\\begin{xenv}', '\\begin{verbatim}',
                          ['xenv', 'yenv', 'end']]


def search_profile(soup):
    out = []
    for q in QUERIES:
        row = [len(soup.find_all(q)), soup.count(q), soup.find(q) is None]
        if isinstance(q, str) and q.isalpha():
            row.append(getattr(soup, q) is None)
        out.append(row)
    return out
CONTEXTS = {
    'top': ('intro \\keep{1} ', 'outro \\keep{2}'),
    'top-bare': ('', ''),
    'env': ('\\begin{center}e \\keep{1} ', 'f\\end{center} \\keep{2}'),
    'brace-arg': ('\\outer{p ', 'q} \\keep{1}'),
    'bracket-arg': ('\\outer[p ', 'q]{r} \\keep{1}'),
    'group': ('{g ', 'h} \\keep{1}'),
    'item': ('\\begin{itemize}\\item one ', 'two\\item three\\end{itemize}'),
    'math$': ('$x ', 'y$ \\keep{1}'),
    'math$$': ('$$x ', 'y$$ \\keep{1}'),
    'math\\(': ('\\(x ', 'y\\) \\keep{1}'),
    'math\\[': ('\\[x ', 'y\\] \\keep{1}'),
    'mathenv': ('\\begin{equation}x ', 'y\\end{equation}'),
    'nested': ('\\begin{center}\\outer{a {b ', 'c} d}\\end{center}'),
    # the comment directly follows the opener / a command / a closer
    'after-$': ('$', 'y$ \\keep{1}'),
    'after-$$': ('$$', 'y$$'),
    'after-brace': ('\\outer{', 'q} \\keep{1}'),
    'after-bracket': ('\\outer[', 'q]{r}'),
    'after-begin': ('\\begin{center}', 'f\\end{center}'),
    'after-item': ('\\begin{itemize}\\item', 'two\\end{itemize}'),
    'after-command': ('\\keep', 'z'),
    'after-end': ('\\begin{center}c\\end{center}', 'z'),
    'after-closing-brace': ('\\keep{1}', '{g}'),
}


def payload(rng):
    return ''.join(rng.choice(ALPHA) for _ in range(rng.randint(0, 7)))


def doc(ctx, k, pay, eof=False, term='\n'):
    c0, c1 = CONTEXTS[ctx]
    hole = '\\' * k + '%' + pay
    if eof:
        return c0 + hole
    return c0 + hole + term + c1


def abstract(ast):
    """replace comment leaves by a placeholder"""
    if isinstance(ast, list):
        if ast and ast[0] == 'K':
            return ['K', '%']
        return [abstract(x) for x in ast]
    return ast


def shape(soup):
    return docgen.tolist(tree2ast.conv_list(soup.expr._contents, frozenset(docgen.VENV)))


def comment_leaves(soup):
    from TexSoup.data import TexText
    from TexSoup.utils import Token, TC
    out = []
    for _, _, _, el in common.raw_nodes(soup.expr):
        t = el._text if isinstance(el, TexText) else el
        if isinstance(t, Token) and t.category == TC.Comment:
            out.append(str(t))
    return out


def outcome(src):
    try:
        return 'tree', common.parse(src)
    except DIAG as e:
        return type(e).__name__, None


class C10(Prop):
    id = 'C10'
    level = 'exploration'
    rule = ('cases: 22 contexts x k in 0..4 backslashes x pairs of payloads '
            'over a hostile alphabet (braces, brackets, dollars, backslashes, '
            '\\begin/\\end/\\item, %, commands), closed by a line break or (top '
            'level) by end of input, the line break being LF, a bare CR or CR LF; every form of search (find_all, count, '
            'find, attribute access; by name, by list of names, by full '
            'expression) must give the same answer for every payload and '
            'nothing for names that occur in the payload only. non-trivial = payload contains at least '
            'one structural character; distinct = by content')
    assumptions = (
        'for odd k the reference is the same document with \\& instead of \\%',
        'payloads contain no line break (a comment runs to the end of its line)',
    )
    probes = ('tok', 'reach')
    probed_every = 10
    reach_required = ['tokens.tokenize_escaped_symbols', 'tokens.tokenize_line_comment']
    min_nontrivial = 2000
    budget_s = {'quick': 200, 'thorough': 2400}

    def cases(self, tier, seed, want):
        n = 16000 if tier == 'quick' else 400000
        ctxs = list(CONTEXTS)
        for j in range(n):
            k = j + 1
            if not want(k):
                continue
            rng = random.Random('%d/%d/c10' % (seed, j))
            ctx = ctxs[j % len(ctxs)]
            yield k, {'ctx': ctx, 'k': (j // len(ctxs)) % 5, 'p1': payload(rng),
                      'p2': payload(rng),
                      'eof': ctx.startswith('top') and rng.random() < .3,
                      # the line may end in LF, in a bare CR or in CR LF
                      'term': rng.choice(['\n', '\n', '\n', '\r', '\r\n'])}

    def nontrivial(self, p):
        return any(c in p['p1'] + p['p2'] for c in '{}[]$\\%')

    def sample(self, p):
        return {'doc': short(doc(p['ctx'], p['k'], p['p1'], p['eof'], p.get('term', '\n')), 200), 'k': p['k']}

    def check(self, p, ctx):
        k = p['k']
        ctx.count('k=%d' % k)
        ctx.seen('terminator', 'eof' if p['eof'] else p.get('term', '\n'))
        ctx.seen('context', p['ctx'])
        if k % 2 == 0:
            return self.check_comment(p, ctx)
        return self.check_escaped(p, ctx)

    def check_comment(self, p, ctx):
        shapes, profiles = [], []
        for pay in (p['p1'], p['p2'], 'Z'):
            src = doc(p['ctx'], p['k'], pay, p['eof'], p.get('term', '\n'))
            soup = common.parse(src)      # a comment can never cause an error
            if str(soup) != src:
                return [fail('comment-roundtrip', '%s -> %s' % (short(repr(src), 120),
                                                                 short(repr(str(soup)), 120)))]
            leaves = comment_leaves(soup)
            if leaves != ['%' + pay]:
                return [fail('comment-leaf', 'document %s has comment leaves %r, expected exactly %r'
                             % (short(repr(src), 120), leaves, '%' + pay))]
            for g in GHOSTS:
                if soup.find_all(g):
                    return [fail('comment-searchable', 'find_all(%r) finds a node inside the comment of %s'
                                 % (g, short(repr(src), 120)))]
            body = src.replace('%' + pay, '%', 1)
            if len(soup.find_all('keep')) != body.count('\\keep'):
                return [fail('comment-structure', 'commands around the comment were lost in %s'
                             % short(repr(src), 120))]
            prof = search_profile(soup)
            for q, row in zip(QUERIES, prof):
                if q in GHOST_QUERIES and (row[0] or row[1] or not all(row[2:])):
                    return [fail('comment-searchable', 'search %r (find_all, count, find[, attribute]) = %r '
                                 'finds something that only occurs in the comment of %s'
                                 % (q, row, short(repr(src), 120)))]
            profiles.append(prof)
            shapes.append(abstract(shape(soup)))
        ctx.count('comment_cases')
        for i in (0, 1):
            if profiles[i] != profiles[2]:
                j = [a != b for a, b in zip(profiles[i], profiles[2])].index(True)
                return [fail('payload-dependent', 'search %r gives %r with payload %r but %r with payload '
                             '\'Z\' in context %s' % (QUERIES[j], profiles[i][j], (p['p1'], p['p2'])[i],
                                                      profiles[2][j], p['ctx']))]
        d = tree2ast.first_diff(shapes[0], shapes[1]) or tree2ast.first_diff(shapes[0], shapes[2])
        if d:
            return [fail('payload-dependent', 'tree shape depends on the comment payload (%r vs %r) at %s'
                         % (p['p1'], p['p2'], short(d, 200)))]
        return []

    def check_escaped(self, p, ctx):
        for pay in (p['p1'], p['p2']):
            src = doc(p['ctx'], p['k'], pay, p['eof'], p.get('term', '\n'))
            c0 = CONTEXTS[p['ctx']][0]
            i = len(c0) + p['k']          # offset of the '%'
            ref = src[:i] + '&' + src[i + 1:]
            a, sa = outcome(src)
            b, sb = outcome(ref)
            ctx.count('escaped_cases')
            if a != b:
                return [fail('escaped-percent', '%s gives %s but with \\& instead of \\%% it gives %s'
                             % (short(repr(src), 120), a, b))]
            if sa is not None:
                ctx.count('escaped_cases_parsed')
                ra = str(sa)
                # the payload is ordinary content here, so a command at its end
                # may take a following group across the line break (C08 relation)
                if ra != src and only_ws_before_openers_removed(src, ra):
                    return [fail('escaped-percent', 'round trip of %s gives %s'
                                 % (short(repr(src), 100), short(repr(ra), 100)))]
                x = shape(sa)
                y = shape(sb)
                # the two documents differ in exactly one character of one leaf
                fx = docgen.render(docgen.totuple(x)) if False else None
                d = tree2ast.first_diff(_mask(x), _mask(y))
                if d:
                    return [fail('escaped-percent', 'tree of %s differs from the \\& reference at %s'
                                 % (short(repr(src), 100), short(d, 160)))]
        return []

    def gates(self, m, tier):
        g = []
        if len(m['sets'].get('context', ())) < len(CONTEXTS):
            g.append('not every context exercised')
        if len(m['sets'].get('terminator', ())) < 4:
            g.append('line terminators LF / CR / CR LF / end of input not all exercised')
        for k in range(5):
            if m['counters'].get('k=%d' % k, 0) < 500:
                g.append('k=%d backslashes: fewer than 500 cases' % k)
        if m['counters'].get('escaped_cases_parsed', 0) < 300:
            g.append('fewer than 300 escaped-percent documents that parse')
        return g


def _mask(ast):
    """make \\% and \\& indistinguishable (text and comment leaves)"""
    if isinstance(ast, list):
        if ast and ast[0] in ('T', 'K') and isinstance(ast[1], str):
            return [ast[0], ast[1].replace('\\%', '\\&')]
        return [_mask(x) for x in ast]
    return ast


PROP = C10()
