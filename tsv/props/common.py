"""Helpers shared by the document-level properties."""
import random
import warnings

from tsv.gen import docgen, corpus

warnings.simplefilter('ignore')


def cfg_general(j, tier):
    """rotation of depth / breadth so that both many small and some large
    documents are produced"""
    if tier == 'quick':
        depth = (2, 3, 3, 4)[j % 4]
        size = (2, 3, 4)[j % 3]
    else:
        depth = (2, 3, 3, 4, 4, 5, 6)[j % 7]
        size = (2, 3, 4, 5, 3)[j % 5]
        if j % 97 == 0:
            depth, size = 3, 9          # long, flat documents
    return docgen.Cfg(maxdepth=depth, size=size,
                      weights={'sizing': 1} if j % 5 == 0 else None)


def doc_cases(seed, n, want, tag, cfg_for, k0=0):
    for j in range(n):
        k = k0 + j + 1
        if not want(k):
            continue
        rng = random.Random('%d/%d/%s' % (seed, j, tag))
        src, ast = docgen.gen_doc(rng, cfg_for(j))
        yield k, {'src': src, 'ast': docgen.tolist(ast)}


def corpus_cases(want, k0, kinds=('sample', 'doc')):
    k = k0
    for origin, src in corpus.documents():
        if origin.split(':')[0] not in kinds:
            continue
        k += 1
        if want(k):
            yield k, {'src': src, 'origin': origin}


def shrink_doc(payload, still_fails, budget=300):
    if 'ast' not in payload:
        return shrink_text(payload, still_fails)
    ast = docgen.totuple(payload['ast'])

    def pred(src, a):
        return still_fails(dict(payload, src=src, ast=docgen.tolist(a)))
    try:
        src, a = docgen.shrink(ast, pred, budget)
    except Exception:
        return payload
    if len(src) < len(payload['src']):
        return dict(payload, src=src, ast=docgen.tolist(a))
    return payload


def shrink_text(payload, still_fails, key='src', budget=400):
    """delta-debugging-lite on a plain string payload"""
    s = payload[key]
    chunk = max(1, len(s) // 2)
    while chunk >= 1 and budget > 0:
        i = 0
        progressed = False
        while i < len(s) and budget > 0:
            t = s[:i] + s[i + chunk:]
            budget -= 1
            if t != s and still_fails(dict(payload, **{key: t})):
                s = t
                progressed = True
            else:
                i += chunk
        if not progressed:
            chunk //= 2
    return dict(payload, **{key: s}) if s != payload[key] else payload


def parse(src, **kw):
    from TexSoup import TexSoup
    return TexSoup(src, **kw)


def raw_nodes(expr):
    """every expression reachable through argument contents and contents, in
    document order, using the raw representation only: yields
    (container_expr, where, index, element)"""
    from TexSoup.data import TexExpr, TexNode, TexText
    for a_i, arg in enumerate(expr.args):
        yield expr, 'args', a_i, arg
        if isinstance(arg, TexExpr):
            yield from raw_nodes(arg)
    for c_i, c in enumerate(expr._contents):
        if isinstance(c, TexNode):
            c = c.expr
        yield expr, 'contents', c_i, c
        if isinstance(c, TexExpr) and not isinstance(c, TexText):
            yield from raw_nodes(c)


# inputs that exposed a defect once (DESIGN section 5); always replayed
WITNESSES = [
    'a}\x00', '\x7f', '{a}\x00$x$ tail', '\\', '\\def\\', '\\item\\',
    '\\begin{verbatim}', '$\\left.|x$', '$\\left.|$', '\\big.|',
    '\\begin{itemize}\\item a\n\\item b [0,1) c\\end{itemize}',
    '\\begin{center}x\\end{center}[', '\\begin{center}x\\end{center}{y}[z',
    '\\begin{math}x\\end{math}{\\begin{itemize}\\item a\\end{itemize}}',
    '\\begin{verbatim}\n{ code }\n\\end{verbatim}',
    '\\begin{verbatim} [x]\\end{verbatim}',
    '\\begin[a]x\\end{a}', '\\begin[', '\\begin{a}x\\end {a}y',
    '\\begin{a}x\\end\n{a}y', '$a$$$b$$', '$a$$b$', '\\begin{a }x\\end{a}',
    '\\begin{ a}x\\end{a}', 'a\nb', '\\newcommand{\\x} [1]{y}',
    '\\newcommand{\\x}[1] {\\begin{a}}', '\\foo{a} [b]', '\\item[', '{\\',
    '\\begin{a}\\f{\\begin{a}\\f{x}\\end{a}}\\end{a}',
]


def string_cases(tier, seed, want, tag, sizing=False, hostile=False,
                 scale=1.0):
    """W2b + W3 + spaced W1: arbitrary strings (well-formed or not) inside the
    input domain of C08/C16 (side conditions asserted on the text), as
    {'s': ..., 'w': workload}.  With hostile=True the NUL/DEL/bare-signature
    tokens are included and no side condition is applied (C07a, C06)."""
    import random as _r
    from tsv.gen import strgen, mutgen
    q = tier == 'quick'
    k = 0

    def ok(s):
        return hostile or strgen.side_conditions_ok(s, sizing)
    for s in WITNESSES:
        k += 1
        if want(k) and ok(s):
            yield k, {'s': s, 'w': 'witness'}
    L = 2 if q else 3
    for k2, tup in strgen.enum_strings(strgen.TOKENS, 1, L, start_k=k):
        if want(k2):
            s = ''.join(tup)
            if ok(s):
                yield k2, {'s': s, 'w': 'tokens'}
    k += strgen.count_strings(strgen.TOKENS, 1, L)
    toks = strgen.TOKENS + (strgen.HOSTILE_TOKENS if hostile else [])
    for j in range(int((40000 if q else 450000) * scale)):
        k += 1
        if want(k):
            rng = _r.Random('%d/%d/%s/r' % (seed, j, tag))
            s = strgen.random_string(rng, toks, L + 1, 4 if (q and j % 2) else 14)
            if ok(s):
                yield k, {'s': s, 'w': 'tokens-sampled'}
    # separator grid: a command head, every sequence of up to 3 separator
    # atoms (blanks, line breaks, comments, CR LF), then an opener or text -
    # the small scope in which "attaches / stays / is given back" is decided
    import itertools as _it
    heads = [('\\foo', ''), ('\\foo{a}', ''), ('\\foo[a]', ''), ('\\foo[a]{b}', ''),
             ('\\begin{itemize}\\item', '\\end{itemize}'), ('\\begin{a}', '\\end{a}'),
             ('$\\alpha', '$'), ('{\\bf', '}'),
             # constructs after whose closer nothing may attach
             ('\\begin{a}x\\end{a}', ''), ('\\begin{verbatim}x\\end{verbatim}', ''),
             ('\\[x\\]', ''), ('{g}', '')]
    atoms = [' ', '\n', '\t', '%c\n', '%\n', '\r\n']
    tails = ['[x]', '{x}', '[x', 'y', '\\bar', '']
    for n in range(0, 4):
        for seq in _it.product(atoms, repeat=n):
            for (h0, h1), t in _it.product(heads, tails):
                k += 1
                if want(k) and (not q or n < 3 or k % 3 == 0):
                    m = h0 + ''.join(seq) + t + h1
                    if ok(m):
                        yield k, {'s': m, 'w': 'sep-grid'}
    # one arbitrary code point (every one below U+0300, the notable ones and
    # a seeded sample of the rest) inside three small documents
    cps = list(range(1, 0x300)) + [0x2028, 0x2029, 0x3000, 0xFEFF, 0xFFFD, 0xFFFF, 0x1F600,
                                    0xE000, 0x10FFFF, 0xD7FF, 0xFF5B, 0xFF3C, 0x200B]
    rcp = _r.Random('%d/%s/cp' % (seed, tag))
    cps += [rcp.randrange(0x300, 0x110000) for _ in range(200 if q else 20000)]
    for cp in cps:
        if 0xD800 <= cp <= 0xDFFF:
            continue
        c = chr(cp)
        for t in ('ab' + c + 'cd', '\\foo{a} ' + c + ' \\bar[' + c + ']', '$x$' + c + '{' + c + '}'):
            k += 1
            if want(k) and ok(t):
                yield k, {'s': t, 'w': 'codepoint'}
    for origin, src in corpus.documents():
        k += 1
        if want(k) and ok(src):
            yield k, {'s': src, 'w': 'corpus'}
    # single-character faults of W1 documents: quick = a sample of 150 faults
    # from each of 48 documents (many document shapes beat every position of
    # a few), thorough = every fault of 400 documents
    for j in range(int((48 if q else 250) * scale)):
        rng = _r.Random('%d/%d/%s/d' % (seed, j, tag))
        src, _ = docgen.gen_doc(rng, cfg_general(j, 'quick'))
        src = src[:220]
        fl = list(mutgen.faults(src, rng, ins_per_pos=1 if not q else 2))
        if q and len(fl) > 150:
            fl = rng.sample(fl, 150)
        for kind, m in fl:
            k += 1
            if want(k) and ok(m):
                yield k, {'s': m, 'w': 'fault:' + kind}
    # whitespace injected before one opening brace/bracket of a document
    # (reaches `\end {x}`, `\begin {x}`, `\item [x]`, `{verbatim}` ...)
    for j in range(int((60 if q else 1800) * scale)):
        rng = _r.Random('%d/%d/%s/w' % (seed, j, tag))
        src, _ = docgen.gen_doc(rng, cfg_general(j, 'quick'))
        src = src[:400]
        spots = [i for i, c in enumerate(src) if c in '{[']
        for i in (spots if len(spots) <= 24 else rng.sample(spots, 24)):
            k += 1
            if want(k):
                m = src[:i] + rng.choice([' ', '\n', '\t', ' \n ', '  ']) + src[i:]
                if ok(m):
                    yield k, {'s': m, 'w': 'ws-before-opener'}
    for j in range(int((2500 if q else 45000) * scale)):
        k += 1
        if want(k):
            rng = _r.Random('%d/%d/%s/s' % (seed, j, tag))
            src, ast = docgen.gen_doc(rng, cfg_general(j, tier))
            if j % 7 == 3:
                src = docgen.render_padded_names(ast, rng)
                w = 'padded-name-doc'
            elif j % 3:
                src = docgen.render_spaced(ast, rng)
                w = 'spaced-doc'
            else:
                w = 'doc'
            if ok(src):
                yield k, {'s': src, 'w': w}
