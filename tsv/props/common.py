"""Helpers shared by the document-level properties."""
import random
import warnings

from tsv.gen import docgen, corpus

warnings.simplefilter('ignore')


def cfg_general(j, tier):
    """rotation of depth / breadth so that both many small and some large
    documents are produced"""
    if tier == 'quick':
        depth = (2, 3, 3, 4)[j % 4]
        size = (2, 3, 4)[j % 3]
    else:
        depth = (2, 3, 3, 4, 4, 5, 6)[j % 7]
        size = (2, 3, 4, 5, 3)[j % 5]
        if j % 97 == 0:
            depth, size = 3, 9          # long, flat documents
    return docgen.Cfg(maxdepth=depth, size=size,
                      weights={'sizing': 1} if j % 5 == 0 else None)


def doc_cases(seed, n, want, tag, cfg_for, k0=0):
    for j in range(n):
        k = k0 + j + 1
        if not want(k):
            continue
        rng = random.Random('%d/%d/%s' % (seed, j, tag))
        src, ast = docgen.gen_doc(rng, cfg_for(j))
        yield k, {'src': src, 'ast': docgen.tolist(ast)}


def corpus_cases(want, k0, kinds=('sample', 'doc')):
    k = k0
    for origin, src in corpus.documents():
        if origin.split(':')[0] not in kinds:
            continue
        k += 1
        if want(k):
            yield k, {'src': src, 'origin': origin}


def shrink_doc(payload, still_fails, budget=300):
    if 'ast' not in payload:
        return shrink_text(payload, still_fails)
    ast = docgen.totuple(payload['ast'])

    def pred(src, a):
        return still_fails(dict(payload, src=src, ast=docgen.tolist(a)))
    try:
        src, a = docgen.shrink(ast, pred, budget)
    except Exception:
        return payload
    if len(src) < len(payload['src']):
        return dict(payload, src=src, ast=docgen.tolist(a))
    return payload


def shrink_text(payload, still_fails, key='src', budget=400):
    """delta-debugging-lite on a plain string payload"""
    s = payload[key]
    chunk = max(1, len(s) // 2)
    while chunk >= 1 and budget > 0:
        i = 0
        progressed = False
        while i < len(s) and budget > 0:
            t = s[:i] + s[i + chunk:]
            budget -= 1
            if t != s and still_fails(dict(payload, **{key: t})):
                s = t
                progressed = True
            else:
                i += chunk
        if not progressed:
            chunk //= 2
    return dict(payload, **{key: s}) if s != payload[key] else payload


def parse(src, **kw):
    from TexSoup import TexSoup
    return TexSoup(src, **kw)


def raw_nodes(expr):
    """every expression reachable through argument contents and contents, in
    document order, using the raw representation only: yields
    (container_expr, where, index, element)"""
    from TexSoup.data import TexExpr, TexNode, TexText
    for a_i, arg in enumerate(expr.args):
        yield expr, 'args', a_i, arg
        if isinstance(arg, TexExpr):
            yield from raw_nodes(arg)
    for c_i, c in enumerate(expr._contents):
        if isinstance(c, TexNode):
            c = c.expr
        yield expr, 'contents', c_i, c
        if isinstance(c, TexExpr) and not isinstance(c, TexText):
            yield from raw_nodes(c)
