"""C19 - categorising and tokenising partition the input.

Boundary oracle over generated executions of the real `categorize` and
`tokenize`:
  * one category token per character, text == the character, position == its
    index, category a member of the category enumeration;
  * token texts, in order, tile the input: each token's text is the slice of
    the input at token.position, tokens do not overlap, and the characters
    between consecutive tokens (and after the last) are only NUL/DEL;
  * no token is empty.
"""
import random

from tsv.base import Prop, fail, short
from tsv.gen import strgen

DROPPABLE = '\x00\x7f'


def check_categorize(s, ctx):
    from TexSoup.category import categorize
    from TexSoup.utils import CC
    cats = list(categorize(s))
    if len(cats) != len(s):
        return fail('categorize-count', '%d category tokens for %d characters'
                    % (len(cats), len(s)))
    for i, (c, t) in enumerate(zip(s, cats)):
        if str(t) != c or len(t) != 1:
            return fail('categorize-text', 'char %d %r categorised as text %r'
                        % (i, c, str(t)))
        if t.position != i:
            return fail('categorize-position', 'char %d %r has position %r'
                        % (i, c, t.position))
        if t.category not in CC:
            return fail('categorize-category', 'char %d %r has category %r'
                        % (i, c, t.category))
        ctx.seen('char_category', t.category.name)
    return None


def check_tokenize(s, ctx):
    from TexSoup.category import categorize
    from TexSoup.tokens import tokenize
    toks = list(tokenize(categorize(s)))
    j = 0
    prev = None
    for n, t in enumerate(toks):
        text = str(t)
        if text == '':
            return fail('empty-token', 'token #%d (category %s) is empty in %s'
                        % (n, getattr(t.category, 'name', t.category),
                           short(repr(s))))
        p = t.position
        if not isinstance(p, int) or p < j or p + len(text) > len(s):
            return fail('token-position', 'token #%d %r has position %r (cursor %d) in %s'
                        % (n, text, p, j, short(repr(s))))
        if s[p:p + len(text)] != text:
            return fail('token-position', 'token #%d %r at %d but source has %r in %s'
                        % (n, text, p, s[p:p + len(text)], short(repr(s))))
        if s[j:p].strip(DROPPABLE):
            return fail('chars-lost', 'characters %r lost before token #%d in %s'
                        % (s[j:p], n, short(repr(s))))
        j = p + len(text)
        cat = getattr(t.category, 'name', str(t.category))
        ctx.seen('token_bigram', (prev, cat))
        prev = cat
    if s[j:].strip(DROPPABLE):
        return fail('chars-lost', 'characters %r lost after the last token in %s'
                    % (short(s[j:]), short(repr(s))))
    ctx.count('tokens_checked', len(toks))
    return None


class C19(Prop):
    id = 'C19'
    level = 'exploration'
    rule = ('cases: (i) blocks of 256 consecutive code points, each code point '
            'categorised and tokenised on its own and between two letters; '
            '(ii) every string over the 25-character category alphabet up to '
            'the length bound (exhaustive); (iii) seeded random strings over '
            'the character and the token alphabets up to length 40. '
            'non-trivial = string of >= 2 characters (or a code-point block); '
            'distinct = by content')
    assumptions = (
        'NUL and DEL may be dropped by the tokenizer but nothing else',
        'a token text may contain NUL/DEL (kept) - allowed by the statement',
    )
    always_probes = ('tok',)     # bounded progress + empty-token contract on every case
    probes = ('tok', 'buf', 'reach')
    probed_every = 40
    reach_required = ['category.categorize', 'tokens.next_token', 'tokens.tokenize', 'tokens.tokenize_ignore', 'tokens.tokenize_spacers', 'tokens.tokenize_string', 'utils.Token.__iadd__']
    min_nontrivial = 1000
    budget_s = {'quick': 200, 'thorough': 2400}
    exhaustive = {
        'quick': 'all strings of length <= 4 over the 25-character category '
                 'alphabet; all code points below U+3000',
        'thorough': 'all strings of length <= 5 over the 25-character category '
                    'alphabet; all 1,114,112 code points',
    }

    def cases(self, tier, seed, want):
        k = 0
        # (i) code points
        if tier == 'quick':
            blocks = list(range(0, 0x3000, 256))
            rng = random.Random('%d/c19/blocks' % seed)
            blocks += sorted(rng.sample(range(0x3000 // 256, 0x110000 // 256), 80))
            blocks = [b if b < 0x3000 else b * 256 for b in blocks]
            # blocks with characters that software tends to special-case: the
            # byte-order mark / variation selectors, full-width ASCII twins,
            # surrogates, private use, emoji, tags, the last block
            for b in (0xFE00, 0xFF00, 0xD800, 0xDF00, 0xE000, 0x1F600,
                      0xE0000, 0x10FF00, 0xFB00, 0x3000, 0xA000):
                if b < 0x110000 and b not in blocks:
                    blocks.append(b)
        else:
            blocks = list(range(0, 0x110000, 256))
        for b in blocks:
            k += 1
            if want(k):
                yield k, {'cp_block': b}
        # (ii) exhaustive strings over the category alphabet
        L = 4 if tier == 'quick' else 5
        for k2, tup in strgen.enum_strings(strgen.CHARS, 0, L, start_k=k):
            if want(k2):
                yield k2, {'s': ''.join(tup)}
        k = k + strgen.count_strings(strgen.CHARS, 0, L)
        # (iii) random longer strings, both alphabets
        n = 20000 if tier == 'quick' else 600000
        toks = strgen.TOKENS + strgen.HOSTILE_TOKENS
        for j in range(n):
            k += 1
            if not want(k):
                continue
            rng = random.Random('%d/%d/c19' % (seed, j))
            if j % 2:
                s = strgen.random_string(rng, strgen.CHARS, 5, 40)
            else:
                s = strgen.random_string(rng, toks, 2, 14)
            yield k, {'s': s}

    def nontrivial(self, p):
        return 'cp_block' in p or len(p['s']) >= 2

    def sample(self, p):
        return p

    def check(self, p, ctx):
        if 'cp_block' in p:
            for cp in range(p['cp_block'], min(p['cp_block'] + 256, 0x110000)):
                c = chr(cp)
                for s in (c, 'a' + c + 'b'):
                    f = check_categorize(s, ctx) or check_tokenize(s, ctx)
                    if f:
                        f['detail'] = 'U+%04X: %s' % (cp, f['detail'])
                        return [f]
                ctx.count('codepoints_checked')
            return []
        s = p['s']
        f = check_categorize(s, ctx)
        if f:
            return [f]
        f = check_tokenize(s, ctx)
        return [f] if f else []

    def shrink(self, p, still_fails):
        if 's' not in p:
            return p
        s = p['s']
        changed = True
        while changed and len(s) > 1:
            changed = False
            for i in range(len(s)):
                t = s[:i] + s[i + 1:]
                if still_fails({'s': t}):
                    s, changed = t, True
                    break
        return {'s': s} if s != p['s'] else p

    def gates(self, m, tier):
        g = []
        if len(m['sets'].get('char_category', ())) < 20:
            g.append('fewer than 20 character categories observed')
        if len(m['sets'].get('token_bigram', ())) < 150:
            g.append('fewer than 150 distinct token-category bigrams observed')
        if m['counters'].get('codepoints_checked', 0) < 0x3000:
            g.append('code point sweep incomplete')
        return g


PROP = C19()
