"""C11 - verbatim-like environments are opaque.

Constructed bodies, built-in vs user names: \\begin{N}body\\end{N} with hostile
bodies, at top level and nested in named environments.  From the
construction: parsing succeeds, the environment has no arguments and exactly
one content element equal to the body up to the first \\end{N}; the text
round-trips; nothing inside the body is searchable; a user-supplied name
(skip_envs) gives the same tree as a built-in one after renaming; without the
option a benign body is parsed normally and an unbalanced one is an error.
"""
import random
import re

from tsv import findings
from tsv.base import Prop, fail, short
from tsv.gen import docgen
from tsv.model import tree2ast
from tsv.props import common

DIAG = (EOFError, TypeError, AssertionError)
BUILTIN = ['verbatim', 'lstlisting', 'Verbatim', 'listing', 'verbatimtab']
USER = ['myverb', 'code*', 'minted', 'usr',
        # user-chosen names that also have a meaning for the parser
        # (none of them is used by the enclosing contexts below)
        'align*', 'gather', 'itemize', 'displaymath', 'math']
ALPHA = ['a', ' ', '\n', '{', '}', '$', '\\begin{x}', '\\end{y}', '[', ']',
         '\\ghost', '\\ghost{z}', '%c\n', '\\', '$$', '\\[', '\\(', '\\item',
         '\\end', '\\end{', '\\begin{N}', '\\begin{itemize}', '\\\\', '\\%', '&',
         '\t', '\n\n', '\\end {N}', 'é', '}}', ']]', '\\textbf', '\\end{Nx}',
         '\\end{N*}', '\\end{xN}', '\\end{N', '\\end{N }',
         # inline-verbatim spellings, definitions, sizing, CR line ends
         '\\verb|', '\\verb+{', '\\verb', '\\verb*!$', '|', '+', '\\def\\x', '\\newcommand{',
         '\\left(', '\\big', '\\label{', '#1', '~', '\r\n', '\r', '\\section{', '\\cup[']
OUTER = [('', ''), ('pre \\keep{1} ', ' post \\keep{2}'),
         ('\\begin{center}c ', ' d\\end{center}'),
         ('\\begin{a}\\begin{b}[o]{r}', '\\end{b} t\\end{a}'),
         ('\\begin{a}\\begin{b}\\begin{center}\n', '\n\\end{center}\\end{b}\\end{a}%eof'),
         ('\\begin{equation}m ', ' n\\end{equation}'),
         ('\\begin{a}p \\keep{1} q {g} r $m$ s \\keep{2} t ', ' u\\end{a}')]
_LEAD = re.compile(r'[ \t]*\n?[ \t]*[\[{]')


def make_body(rng, name, lead_ws_group=False):
    body = ''.join(rng.choice(ALPHA) for _ in range(rng.randint(0, 8)))
    body = body.replace('{N', '{' + name).replace('N}', name + '}')
    body = docgen.fix_verbatim(name, body)
    if lead_ws_group:
        body = rng.choice([' ', '\n', ' \n ', '\t']) + rng.choice('{[') + body
        body = docgen.fix_verbatim(name, 'Q' + body)[1:]
    return body


def doc(outer, name, body, rest=''):
    o0, o1 = OUTER[outer]
    return o0 + '\\begin{%s}%s\\end{%s}%s' % (name, body, name, rest) + o1


def find_env(soup, name):
    from TexSoup.data import TexNamedEnv
    return [el for _, _, _, el in common.raw_nodes(soup.expr)
            if isinstance(el, TexNamedEnv) and el.name == name]


def shape(soup, skip):
    return docgen.tolist(tree2ast.conv_list(soup.expr._contents, frozenset(skip)))


def rename(ast, old, new):
    if isinstance(ast, list):
        if ast and ast[0] in ('V', 'E', 'V!') and ast[1] == old:
            return [ast[0], new] + [rename(x, old, new) for x in ast[2:]]
        return [rename(x, old, new) for x in ast]
    if isinstance(ast, str):
        return new if ast == old else ast.replace('{%s}' % old, '{%s}' % new)
    return ast


class C11(Prop):
    id = 'C11'
    level = 'exploration'
    rule = ('cases: 5 built-in and 4 user-chosen names (via skip_envs) x '
            'hostile bodies (unbalanced delimiters, \\begin/\\end of other and '
            'of the same environment, math switches, comments on earlier '
            'lines, optionally blanks + brace/bracket at the start) x 6 '
            'enclosing contexts (top level, surrounding content, 1-3 named '
            'environments) x optional second \\end{N}. non-trivial = body '
            'contains a structural character; distinct = by content')
    assumptions = (
        'bodies satisfy the statement\'s provisos (first character not a '
        'brace/bracket, no trailing backslash, no % on the last line); '
        'NUL/DEL/CR are not used in bodies',
    )
    probes = ('buf', 'reach')
    probed_every = 20
    reach_required = ['reader.read_skip_env', 'utils.Buffer.forward_until', 'utils.Buffer.startswith', 'reader.read_tex']
    min_nontrivial = 2000
    budget_s = {'quick': 200, 'thorough': 2400}

    def cases(self, tier, seed, want):
        n = 14000 if tier == 'quick' else 200000
        for j in range(n):
            k = j + 1
            if not want(k):
                continue
            rng = random.Random('%d/%d/c11' % (seed, j))
            user = j % 2 == 1
            name = rng.choice(USER if user else BUILTIN)
            yield k, {'name': name, 'user': user, 'outer': j % len(OUTER),
                      'body': make_body(rng, name, lead_ws_group=(j % 11 == 0)),
                      'second_end': j % 7 == 0,
                      # what directly follows the closing \end{name}
                      'rest': rng.choice(['', '', '', '[1] tail', '[', '{g}', '[a][b]', ' [x]',
                                          '\n{y}', '*', 'x', '[{]}', '%c\n', '$m$'])}

    def nontrivial(self, p):
        return any(c in p['body'] for c in '{}[]$\\%')

    def sample(self, p):
        return {'doc': short(doc(p['outer'], p['name'], p['body'], p.get('rest', '')), 200), 'user': p['user']}

    def check(self, p, ctx):
        from TexSoup import TexSoup
        name, body = p['name'], p['body']
        rest = p.get('rest', '') + (' mid \\end{%s}' % name if p['second_end'] and p['outer'] < 2 else '')
        ctx.seen('after_end', p.get('rest', ''))
        src = doc(p['outer'], name, body, rest)
        kw = {'skip_envs': (name,)} if p['user'] else {}
        soup = TexSoup(src, **kw)
        ctx.count('user_names' if p['user'] else 'builtin_names')
        ctx.seen('outer', p['outer'])
        if _LEAD.match(body):
            ctx.count('bodies_starting_with_blank_then_group')
        if str(soup) != src:
            return [fail('verbatim-roundtrip', '%s -> %s' % (short(repr(src), 120),
                                                              short(repr(str(soup)), 120)))]
        envs = find_env(soup, name)
        if len(envs) != 1:
            return [fail('verbatim-node', '%d environments named %s in %s'
                         % (len(envs), name, short(repr(src), 120)))]
        env = envs[0]
        if len(env.args) != 0:
            return [fail('verbatim-args', 'environment has arguments %r in %s'
                         % (env.args, short(repr(src), 120)))]
        if len(env._contents) != 1 or str(env._contents[0]) != body:
            return [fail('verbatim-body', 'content %r, expected the single raw text %r'
                         % ([str(c) for c in env._contents][:4], body))]
        node = [d for d in soup.find_all(name)]
        if len(node) != 1 or list(node[0].children) or len(node[0].contents) > 1:
            return [fail('verbatim-body', 'the environment node exposes parsed children')]
        for g in ('ghost', 'x', 'y', 'itemize', 'item', 'textbf'):
            if g != name and soup.find_all(g):
                return [fail('verbatim-searchable', 'find_all(%r) finds a node inside the body of %s'
                             % (g, short(repr(src), 120)))]
        if len(soup.find_all('keep')) != src.count('\\keep'):
            return [fail('verbatim-structure', 'surrounding commands lost in %s' % short(repr(src), 120))]
        # user-chosen name == built-in name after renaming
        if p['user'] and ('\\begin{verbatim}' not in src and '\\end{verbatim}' not in src):
            ref_src = doc(p['outer'], 'verbatim', body.replace('{%s}' % name, '{verbatim}'),
                          rest.replace('{%s}' % name, '{verbatim}'))
            ref = TexSoup(ref_src)
            mine = rename(shape(soup, docgen.VENV + [name]), name, 'verbatim')
            d = tree2ast.first_diff(mine, shape(ref, docgen.VENV))
            ctx.count('user_vs_builtin_compared')
            if d:
                return [fail('user-name-differs', 'skip_envs=(%r,) tree differs from the built-in one at %s'
                             % (name, short(d, 160)))]
            # without the option the same body is parsed normally
            benign = 'a \\ghost{b} c'
            plain = TexSoup(doc(p['outer'], name, benign))
            if not plain.find_all('ghost'):
                return [fail('option-leaks', 'without skip_envs the body of %s is still opaque' % name)]
            ctx.count('without_option_parsed')
            try:
                TexSoup(doc(p['outer'], name, 'a { b'))
                return [fail('option-leaks', 'without skip_envs an unbalanced body of %s parses' % name)]
            except DIAG:
                ctx.count('without_option_unbalanced_rejected')
        return []

    def gates(self, m, tier):
        g = []
        c = m['counters']
        for key in ('user_names', 'builtin_names', 'user_vs_builtin_compared',
                    'without_option_parsed', 'without_option_unbalanced_rejected'):
            if c.get(key, 0) < 500:
                g.append('%s: fewer than 500' % key)
        if len(m['sets'].get('outer', ())) < len(OUTER):
            g.append('not every enclosing context exercised')
        return g


PROP = C11()


@findings.classifier('verbatim-leading-ws-group')
def _d10(prop, p, fails, rerun):
    """D10: blanks (+ at most one line break) followed by '{' or '[' at the
    start of a verbatim-like body are read as arguments of the environment."""
    body = p['body']
    if not _LEAD.match(body) or body[:1] in '{[':
        return False
    return findings.fixed_by(p, dict(p, body='v' + body), fails, rerun)
