"""C02 - the parse tree mirrors the construct structure of the document.

Boundary oracle against the generating syntax tree: the document is rendered
from a random syntax tree of grammar G; the real parser's expression tree is
converted back (raw representation only) and must equal the generating tree:
kinds, names, argument kinds and order, exact contents, nesting; comments are
single leaves; adjacent text merged.
"""
from tsv.base import Prop, fail, short
from tsv.gen import docgen
from tsv.props import common
from tsv.model import tree2ast


class C02(Prop):
    id = 'C02'
    level = 'exploration'
    rule = ('cases: documents rendered from random syntax trees of grammar G '
            '(incl. \\item bodies ending at the next \\item / \\end, lone '
            '\\begin/\\end inside \\newcommand-style definitions, star names, '
            'sizing commands, fixed-signature commands, comments in optional '
            'arguments); the generating tree is the oracle; non-trivial = at '
            'least 3 construct kinds and one nesting level; distinct = by '
            'source text')
    assumptions = (
        'well-formed = derivable from grammar G under the context conditions '
        'of DESIGN 3.1',
        'leaf segmentation of text is not part of the structure (adjacent '
        'text leaves are merged before comparing)',
    )
    probes = ('read', 'reach')
    probed_every = 16
    reach_required = ['reader.read_expr', 'reader.read_env', 'reader.read_item', 'reader.read_args', 'reader.read_command', 'tokens.tokenize_command_name', 'tokens.tokenize_punctuation_command_name']
    min_nontrivial = 1000
    budget_s = {'quick': 240, 'thorough': 3000}

    def cases(self, tier, seed, want):
        n = 24000 if tier == 'quick' else 300000
        yield from common.doc_cases(seed, n, want, 'c02',
                                    lambda j: common.cfg_general(j, tier))

    def nontrivial(self, p):
        ast = docgen.totuple(p['ast'])
        return len(docgen.kinds(ast)) >= 3 and docgen.depth(ast) >= 2

    def sample(self, p):
        return {'src': short(p['src'], 300)}

    def check(self, p, ctx):
        ast = docgen.totuple(p['ast'])
        soup = common.parse(p['src'])
        got = tree2ast.conv_list(soup.expr._contents, frozenset(docgen.VENV))
        for k in docgen.kinds(ast):
            ctx.count('kind:' + k)
        docgen.adjacency(ast, ctx)
        for _, n in docgen.walk(ast):
            if n[0] == 'I':
                ctx.count('items')
            elif n[0] == 'C' and n[1] in ('begin', 'end'):
                ctx.count('begin_end_inside_definition')
            elif n[0] == 'C' and n[1].endswith('*'):
                ctx.count('star_names')
            elif n[0] == 'K':
                ctx.count('comments')
        d = tree2ast.first_diff(docgen.tolist(ast), docgen.tolist(got))
        if d:
            return [fail('tree!=ast', 'parsed tree differs from the generating tree at %s' % short(d, 300))]
        return []

    def shrink(self, p, still_fails):
        return common.shrink_doc(p, still_fails)

    def gates(self, m, tier):
        g = []
        from tsv.props.c01 import KINDS
        for k in KINDS:
            if m['counters'].get('kind:' + k, 0) < 200:
                g.append('construct kind %s seen in fewer than 200 documents' % k)
        for k in ('items', 'begin_end_inside_definition', 'star_names', 'comments'):
            if m['counters'].get(k, 0) < 100:
                g.append('%s seen fewer than 100 times' % k)
        return g


PROP = C02()
