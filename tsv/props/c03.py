"""C03 - search returns exactly the matching nodes.

Reference search over the raw tree (tsv.model.refsearch) and, independently
of the parsed tree, occurrence counts in the generating syntax tree.  Every
name occurring in the document, absent names, list queries and
full-expression queries; every node of the tree as search root.
"""
import random
from collections import Counter

from tsv.base import Prop, fail, short
from tsv.gen import docgen
from tsv.props import common
from tsv.model import refsearch as R
from tsv.props.c04 import all_nodes

# names drawn from small pools so that every document repeats names in
# different containers
POOL_CMD = ['foo', 'bar', 'ref', 'emph', 'x', 'hspace*']
POOL_ENV = ['a', 'center', 'theorem', 'table*']
# by-name queries that also denote an unnamed math region are not used
AMBIGUOUS = {'math', 'displaymath', 'BraceGroup', 'BracketGroup'}
ABSENT = ['nosuchname', 'zzz']


def cfg_search(j, tier):
    depth = (2, 3, 3, 4)[j % 4] if tier == 'quick' else (2, 3, 4, 4, 5)[j % 5]
    return docgen.Cfg(maxdepth=depth, size=(3, 4, 5)[j % 3], cmd=POOL_CMD,
                      env=POOL_ENV, twins=0.15 if j % 3 == 0 else 0.0,
                      weights={'cmd': 26, 'env': 10, 'text': 18, 'sizing': 1})


def ast_counts(ast):
    c = Counter()
    for _, n in docgen.walk(ast):
        if n[0] == 'C':
            # (the bare command argument of \def\x{..} is an element of the
            # argument list itself, not inside any container the statement
            # lists, so it is not counted)
            c[n[1]] += 1
        elif n[0] == 'E' or n[0] == 'V':
            c[n[1]] += 1
        elif n[0] == 'I':
            c['item'] += 1
    return c


def container_kinds(expr, ctx):
    """record in which container kinds matches were observed"""
    from TexSoup.data import TexCmd, TexNamedEnv, BraceGroup, BracketGroup, TexEnv

    def rec(e, where):
        for arg in e.args:
            kind = 'arg[]' if isinstance(arg, BracketGroup) else 'arg{}'
            for c in getattr(arg, '_contents', ()):
                if not R.is_text(c):
                    ctx.seen('match_container', where + '>' + kind if where.startswith('arg') else kind)
                    rec(c, kind)
        for c in e._contents:
            if not R.is_text(c):
                if isinstance(e, TexCmd):
                    k = 'item'
                elif isinstance(e, TexNamedEnv):
                    k = 'env-body'
                elif isinstance(e, BraceGroup):
                    k = 'group'
                elif isinstance(e, BracketGroup):
                    k = 'bracket'
                elif e.name == '[tex]':
                    k = 'root'
                else:
                    k = 'math' + str(e.begin)
                ctx.seen('match_container', k)
                rec(c, k)
    rec(expr, 'root')


class C03(Prop):
    id = 'C03'
    level = 'exploration'
    rule = ('cases: W1 documents with names from small pools (repeated names '
            'in different containers, textual twins); per document: every '
            'occurring name, 2 absent names, a list query, full-expression '
            'queries built from real nodes; every node as search root; '
            'non-trivial = some queried name occurs >= 2 times in >= 2 '
            'containers; distinct = by source text')
    assumptions = (
        'by-name queries "math"/"displaymath" (also the names of the unnamed '
        '\\(..\\) / \\[..\\] regions) are judged against the raw-tree walk only, not '
        'against the generator\'s counts; \\end{..} strings are not used as queries',
        'order of find_all is not constrained beyond find == find_all[0]',
        'names that collide with real attributes of the node class are '
        'skipped for attribute access',
    )
    probes = ('reach',)
    probed_every = 10
    reach_required = ['data.TexNode.find_all', 'data.TexNode.find', 'data.TexNode.count', 'data.TexNode.__getattr__', 'data.TexExpr.__match__', 'data.TexEnv.__match__', 'data.TexExpr.all']
    min_nontrivial = 500
    budget_s = {'quick': 240, 'thorough': 3000}

    def cases(self, tier, seed, want):
        n = 2500 if tier == 'quick' else 50000
        yield from common.doc_cases(seed, n, want, 'c03',
                                    lambda j: cfg_search(j, tier))
        # documents that also hold a verbatim-like environment WITH arguments
        # (the arguments are parsed, the body is not): judged against the
        # raw-tree walk only
        m = 300 if tier == 'quick' else 6000
        for j in range(m):
            k = n + j + 1
            if not want(k):
                continue
            rng = random.Random('%d/%d/c03v' % (seed, j))
            src, ast = docgen.gen_doc(rng, cfg_search(j, tier))
            name = rng.choice(docgen.VENV)
            tail = '\\begin{%s}[caption={Loop in \\textbf{C} by \\foo}, label=\\ref{l}]raw $ { \\bar \\end{%s}' % (name, name)
            wrap = rng.choice([('', ''), ('\\begin{center}', '\\end{center}'), ('{', '}'),
                               ('\\begin{itemize}\\item ', '\\end{itemize}')])
            yield k, {'src': src + '\n' + wrap[0] + tail + wrap[1] + '\n\\foo{end}', 'verbarg': True}

    def nontrivial(self, p):
        if p.get('verbarg'):
            return True
        c = ast_counts(docgen.totuple(p['ast']))
        return any(v >= 2 for v in c.values())

    def sample(self, p):
        return {'src': short(p['src'], 240)}

    def check(self, p, ctx):
        from TexSoup.data import TexNode, TexEnv
        src = p['src']
        if p.get('verbarg'):
            try:
                soup = common.parse(src)
            except (EOFError, TypeError, AssertionError):
                ctx.count('verbarg_documents_rejected')
                return []
            ctx.count('verbarg_documents')
            counts = {}
        else:
            ast = docgen.totuple(p['ast'])
            soup = common.parse(src)
            counts = ast_counts(ast)
        names = sorted(n for n in counts if n not in AMBIGUOUS
                       and '{' not in n and '[' not in n)
        container_kinds(soup.expr, ctx)
        # (1) ground truth from the generator: count(name) at the root
        if p.get('verbarg'):
            names = ['foo', 'textbf', 'ref', 'bar', 'x', 'center']
        for name in ([] if p.get('verbarg') else names + ABSENT):
            got = soup.count(name)
            ctx.count('ast_count_queries')
            if got != counts.get(name, 0):
                return [fail('count!=ast', 'count(%r) = %d but the document contains %d'
                             % (name, got, counts.get(name, 0)))]
        nodes = list(all_nodes(soup))
        cap = p.get('roots', 10)
        ctx.count('roots_total', len(nodes))
        if len(nodes) > cap:
            step = len(nodes) / float(cap)
            nodes = [nodes[int(i * step)] for i in range(cap)]
        ctx.count('roots_searched', len(nodes))
        # full-expression queries from real nodes
        full = []
        for c in R.closure(soup.expr):
            if R.is_text(c):
                continue
            s = str(c)
            if ('{' in s or '[' in s) and len(s) < 60 and not s.startswith('\\end'):
                if isinstance(c, TexEnv) and c.name not in ('$', '$$', 'math', 'displaymath', 'BraceGroup', 'BracketGroup'):
                    full.append(c.begin)
                    full.append(c.begin + str(c.args))
                elif s.startswith('\\'):
                    full.append(s)
        items = sorted(set(str(c) for c in R.closure(soup.expr)
                           if not R.is_text(c) and getattr(c, 'name', None) == 'item'
                           and ('{' in str(c) or '[' in str(c)) and len(str(c)) < 80))[:3]
        full = sorted(set(full))[:6] + items
        # a full-expression query matches text *equal* to it: variants that
        # differ in outer whitespace are different queries
        full += [q.rstrip() for q in full if q.rstrip() != q] + \
                [q + ' ' for q in full[:2]] + [q.rstrip() + '\n' for q in full[:2]] + [' ' + q for q in full[:1]]
        full = sorted(set(full))
        listq = [names[:2] + ['nosuchname']] if names else []
        # the names TexSoup gives to unnamed regions and groups never occur in
        # the text of their nodes; judged against the raw-tree walk only
        synthetic = ['displaymath', 'math', '$', '$$', 'BraceGroup', 'BracketGroup']
        for N in nodes:
            for q in names + ABSENT + listq + full + synthetic:
                exp = R.search(N.expr, q)
                got = N.find_all(q)
                ctx.count('queries')
                if any(not isinstance(g, TexNode) for g in got):
                    return [fail('find_all', 'find_all(%r) returned a non-node' % (q,))]
                ek, gk = Counter(id(e) for e in exp), Counter(id(g.expr) for g in got)
                if ek != gk:
                    missing = [short(str(e), 40) for e in exp if gk[id(e)] < ek[id(e)]]
                    extra = [short(str(g), 40) for g in got if gk[id(g.expr)] > ek[id(g.expr)]]
                    return [fail('find_all', 'find_all(%r) under %s: missing %r, spurious/duplicate %r'
                                 % (q, short(str(N), 50), missing[:3], extra[:3]))]
                if exp:
                    ctx.count('queries_with_matches')
                    ctx.seen('result_size', min(len(exp), 6))
                first = N.find(q)
                if (first is None) != (not got) or (got and first.expr is not got[0].expr):
                    return [fail('find', 'find(%r) is not the first element of find_all' % (q,))]
                if N.count(q) != len(got):
                    return [fail('count', 'count(%r) = %d, find_all has %d' % (q, N.count(q), len(got)))]
                if isinstance(q, str) and q.isidentifier() and not hasattr(type(N), q) \
                        and q not in N.__dict__:
                    a = getattr(N, q)
                    ctx.count('attribute_queries')
                    if (a is None) != (first is None) or (a is not None and a.expr is not first.expr):
                        return [fail('getattr', 'node.%s is not find(%r)' % (q, q))]
                if isinstance(q, list):
                    union = Counter()
                    for name in q:
                        union.update(id(g.expr) for g in N.find_all(name))
                    if union != gk:
                        return [fail('list-query', 'find_all(%r) is not the union of the single queries' % (q,))]
        return []

    def shrink(self, p, still_fails):
        if p.get('verbarg'):
            return p
        return common.shrink_doc(p, still_fails, budget=120)

    def gates(self, m, tier):
        g = []
        c = m['counters']
        if c.get('verbarg_documents', 0) < 100:
            g.append('fewer than 100 documents with an argument-bearing verbatim environment')
        if c.get('queries_with_matches', 0) < 20000:
            g.append('fewer than 20000 queries with matches')
        if c.get('attribute_queries', 0) < 5000:
            g.append('fewer than 5000 attribute-access queries')
        need = {'env-body', 'item', 'group', 'arg{}', 'arg[]', 'math$', 'math$$',
                'math\\(', 'math\\[', 'root'}
        seen = set(m['sets'].get('match_container', ()))
        if need - seen:
            g.append('no searchable node observed inside: %s' % sorted(need - seen))
        return g


PROP = C03()
