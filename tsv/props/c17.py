"""C17 - the result depends only on the source text; parses are isolated.

 (i)   input-form differential: str vs every split point / random chunkings,
       list and tuple of lines, generator, io.StringIO, a real file;
 (ii)  hash-seed sweep: the same corpus parsed in fresh interpreters with a
       range of PYTHONHASHSEED values, digest logs compared offline;
 (iii) interleaving projection: every interleaving of two 3-step operation
       sequences (parse, edit, edit+serialise) on documents A and B; each
       document's observations must equal those of its solo run;
 (iv)  two parses of the same source are equal and share no mutable object;
 plus a global-state sentinel (digest of every module-level mutable table,
 mutable default and class-level attribute) taken before and after each case.
"""
import hashlib
import io
import itertools
import json
import os
import random
import subprocess
import tempfile

from tsv import env, findings
from tsv.base import Prop, fail, short
from tsv.gen import docgen, strgen
from tsv.props import common

DIAG = (EOFError, TypeError, AssertionError)


# --------------------------------------------------------------- sentinel --
def sentinel():
    import TexSoup.tokens as T
    import TexSoup.reader as Rd
    import TexSoup.category as C
    import TexSoup.data as Dt
    import TexSoup.utils as U
    parts = [
        [n for n, _ in T.tokenizers], [id(f) for _, f in T.tokenizers],
        list(T.SKIP_ENV_NAMES), list(T.MATH_ENV_NAMES), sorted(T.SPECIAL_COMMANDS),
        sorted(T.BRACKETS_DELIMITERS), list(T.SIZE_PREFIX), sorted(T.PUNCTUATION_COMMANDS),
        sorted((k, v) for k, v in Rd.SIGNATURES.items()),
        sorted((int(k), v.__name__) for k, v in Rd.MATH_TOKEN_TO_ENV.items()),
        sorted((int(k), v.__name__) for k, v in Rd.ARG_BEGIN_TO_ENV.items()),
        sorted((int(k), repr(v)) for k, v in C.CATEGORY_CODES.items()),
        repr(Dt.TexArgs.__init__.__defaults__), repr(Dt.TexExpr.__init__.__defaults__),
        repr(Dt.TexEnv.__init__.__defaults__), repr(Dt.TexGroup.__init__.__kwdefaults__),
        repr((Dt.TexEnv._begin, Dt.TexEnv._end)),
        [(c.__name__, c.name, c.begin, c.end) for c in (
            Dt.TexUnNamedEnv, Dt.TexDisplayMathModeEnv, Dt.TexMathModeEnv,
            Dt.TexDisplayMathEnv, Dt.TexMathEnv, Dt.BraceGroup, Dt.BracketGroup)],
        (str(U.Token.Empty), U.Token.Empty.position, repr(U.Token.Empty.category)),
        [c.__name__ for c in Dt.arg_type],
    ]
    return hashlib.blake2b(repr(parts).encode(), digest_size=12).hexdigest()


def obs(soup):
    return (str(soup), repr(soup.expr))


def parse_obs(src, **kw):
    from TexSoup import TexSoup
    try:
        return ('tree',) + obs(TexSoup(src, **kw))
    except DIAG as e:
        return (type(e).__name__, str(e), '')


# ------------------------------------------------------------ edit scripts --
def script(src, which, skip=()):
    """three steps on one document; returns a list of thunks that each return
    an observation.  State lives in the closure (one tree per script run)."""
    from TexSoup import TexSoup
    st = {}

    def s0():
        st['soup'] = TexSoup(src, skip_envs=tuple(skip))
        return obs(st['soup'])

    def s1():
        soup = st['soup']
        ch = list(soup.children)
        if which % 3 == 0 and ch:
            ch[0].delete()
        elif which % 3 == 1 and ch and hasattr(ch[-1].expr, 'name') and ch[-1].expr.name not in ('$', '$$', 'math', 'displaymath', 'BraceGroup'):
            ch[-1].name = 'renamed'
        else:
            soup.insert(0, 'INS%d ' % which)
        return obs(soup)

    def s2():
        soup = st['soup']
        ch = list(soup.children)
        if ch and len(ch[0].args) and which % 2:
            ch[0].args.append('{added%d}' % which)
        else:
            soup.append(' tail%d' % which)
        # a later parse (of the edited text) is an observation too
        return obs(soup) + (tuple(str(t) for t in soup.text)[:5],) + parse_obs(str(soup))
    return [s0, s1, s2]


def reachable_mutables(root):
    """id()s of all TexExpr / TexArgs / list objects reachable from a tree"""
    from TexSoup.data import TexExpr, TexArgs
    seen = {}
    stack = [root]
    while stack:
        x = stack.pop()
        if id(x) in seen:
            continue
        if isinstance(x, TexExpr) and not isinstance(x, str):
            seen[id(x)] = x
            stack.append(x._contents)
            stack.append(x.args)
            stack.append(x.args.all)
        elif isinstance(x, (list, TexArgs)):
            seen[id(x)] = x
            stack.extend(x)
    return seen


class C17(Prop):
    id = 'C17'
    level = 'exploration'
    rule = ('cases: (i) documents/strings x input forms (all split points for '
            'sources <= 40 chars, 6 random chunkings otherwise; list/tuple of '
            'lines; generator; StringIO; real file); (iii) pairs of documents '
            'x all 20 interleavings of two 3-step scripts; (iv) double parse '
            'with disjointness of reachable mutable objects; sentinel around '
            'every case; (ii) corpus (W1, token strings, every sizing prefix '
            'x delimiter x following delimiter character) x PYTHONHASHSEED '
            'range in fresh interpreters. non-trivial = source of >= 4 '
            'characters; distinct = by content')
    assumptions = (
        'file input is read with newline="" (no newline translation); '
        'sources contain no CR',
        'immutable str/Token leaves may be shared between trees',
    )
    min_nontrivial = 500
    budget_s = {'quick': 240, 'thorough': 3000}
    max_workers = 12

    # ---- (ii) hash seed sweep, run around the per-case workers -------------
    def corpus(self, tier, seed):
        out = []
        rng = random.Random('%d/c17corpus' % seed)
        for j in range(150 if tier == 'quick' else 1500):
            src, _ = docgen.gen_doc(random.Random('%d/%d/c17h' % (seed, j)),
                                    common.cfg_general(j, 'quick'))
            out.append(src[:300])
        toks = strgen.TOKENS
        for j in range(1500 if tier == 'quick' else 20000):
            out.append(strgen.random_string(rng, toks, 2, 8))
        delims = docgen.DELIMS + ['{', '}']
        for pre in docgen.SIZING:
            for d in delims:
                out.append('$\\%s%s x$' % (pre, d))
                for c in ['|', '.', '(', ')', '[', ']', '<', '>', '\\{', '\\}', 'x', ' ']:
                    if d in ('.', '|', '\\langle', '('):
                        out.append('$\\%s%s%s y$' % (pre, d, c))
        # names LaTeX also uses for sizing (not in TexSoup's table today)
        for pre in ('middle', 'bigl', 'bigr', 'Bigl', 'Biggr', 'biggm', 'mathopen'):
            for d in delims:
                out.append('$a \\%s%s b$' % (pre, d))
        for pre in docgen.SIZING:
            for nd in ('x', '/', '\\Vert', ' (', '\\|', '1', ''):
                out.append('$\\%s%s v$' % (pre, nd))
        out += common.WITNESSES
        return out

    def _children(self, scratch, cpath, jobs):
        """jobs: [(tag, hashseed, order_seed|None)] -> {tag: result dict}"""
        procs, res = [], {}
        for n, (tag, hs, order) in enumerate(jobs):
            out = os.path.join(scratch, 'hs-%s.json' % tag)
            e = dict(os.environ, PYTHONHASHSEED=str(hs), PYTHONPATH=env.VERIF,
                     PYTHONDONTWRITEBYTECODE='1')
            cmd = [env.PYTHON, '-B', '-m', 'tsv.props.c17_child', cpath, out]
            if order is not None:
                cmd.append(str(order))
            procs.append((tag, out, subprocess.Popen(cmd, cwd=env.VERIF, env=e)))
            if len(procs) % 16 == 0:
                for _, _, p in procs[-16:]:
                    p.wait()
        for tag, out, p in procs:
            p.wait()
            if p.returncode == 0 and os.path.exists(out):
                res[tag] = json.load(open(out))
        return res

    def post_run(self, tier, seed, merged, scratch):
        q = tier == 'quick'
        seeds = list(range(8)) if q else list(range(64))
        orders = list(range(1, 7)) if q else list(range(1, 17))
        corpus = self.corpus(tier, seed)
        cpath = os.path.join(scratch, 'hs-corpus.json')
        json.dump(corpus, open(cpath, 'w'))
        jobs = [('seed%d' % s, s, None) for s in seeds] + \
               [('order%d' % o, 0, o) for o in orders]
        logs = self._children(scratch, cpath, jobs)
        missing = [t for t, _, _ in jobs if t not in logs]
        if missing:
            merged['harness_errors'].append({'k': -1, 'trace': 'sweep children failed: %s' % missing[:5]})
        c = merged['counters']
        c['hashseed_interpreters'] = sum(1 for t in logs if t.startswith('seed'))
        c['order_interpreters'] = sum(1 for t in logs if t.startswith('order'))
        c['hashseed_corpus_cases'] = len(corpus)
        c['sweep_digests_compared'] = len(corpus) * len(logs)
        extra = []
        base = logs.get('seed0')
        if base is None:
            return extra
        # (ii) same order, different hash seeds
        n = 0
        for i, src in enumerate(corpus):
            for s in seeds[1:]:
                lg = logs.get('seed%d' % s)
                if lg and lg['digests'][i] != base['digests'][i]:
                    extra.append({'k': -1, 'payload': {'w': 'hashseed', 'src': src, 'seeds': [0, s]},
                                  'failures': [fail('hash-seed-dependent',
                                                    'parsing %s gives different results under PYTHONHASHSEED=0 and %d'
                                                    % (short(repr(src), 80), s))], 'known': None})
                    n += 1
                    break
            if n >= 4:
                break
        # (iii') same hash seed, different order of the same corpus: any
        # difference means an earlier parse influenced a later one
        n = 0
        for i, src in enumerate(corpus):
            for o in orders:
                lg = logs.get('order%d' % o)
                if lg and lg['digests'][i] != base['digests'][i]:
                    pos = lg['order'].index(i)
                    before = [corpus[x] for x in lg['order'][:pos]]
                    extra.append({'k': -1, 'payload': {'w': 'history', 'src': src,
                                                       'before': before[-3000:]},
                                  'failures': [fail('history-dependent',
                                                    'parsing %s gives a different result after %d other parses than in '
                                                    'corpus order (same hash seed, same interpreter version)'
                                                    % (short(repr(src), 80), pos))], 'known': None})
                    n += 1
                    break
            if n >= 4:
                break
        return extra

    def check_history(self, p, ctx):
        """replay of a history finding: the source alone vs after its predecessors"""
        outs = []
        for corpus in ([p['src']], list(p['before']) + [p['src']]):
            with tempfile.TemporaryDirectory(prefix='tsv-c17-') as d:
                cp, op = os.path.join(d, 'c.json'), os.path.join(d, 'o.json')
                json.dump(corpus, open(cp, 'w'))
                subprocess.run([env.PYTHON, '-B', '-m', 'tsv.props.c17_child', cp, op],
                               cwd=env.VERIF, check=True,
                               env=dict(os.environ, PYTHONHASHSEED='0', PYTHONPATH=env.VERIF))
                outs.append(json.load(open(op))['digests'][-1])
        if outs[0] != outs[1]:
            return [fail('history-dependent', 'parsing %s alone and after %d earlier parses differs'
                         % (short(repr(p['src']), 80), len(p['before'])))]
        return []

    # ---- per-case workload ---------------------------------------------------
    def cases(self, tier, seed, want):
        q = tier == 'quick'
        k = 0
        srcs = []
        for j in range(1200 if q else 18000):
            k += 1
            if want(k):
                rng = random.Random('%d/%d/c17f' % (seed, j))
                if j % 3 == 0:
                    src = strgen.random_string(rng, strgen.TOKENS, 2, 10)
                else:
                    src, _ = docgen.gen_doc(rng, common.cfg_general(j, 'quick'))
                if j % 8 == 5:
                    src = '\ufeff' + src      # a byte-order mark left by the editor
                yield k, {'w': 'forms', 'src': src[:400], 'j': j}
        for j in range(600 if q else 9000):
            k += 1
            if want(k):
                ra = random.Random('%d/%d/c17a' % (seed, j))
                a, _ = docgen.gen_doc(ra, docgen.Cfg(2, 3, env=['a', 'center'], cmd=['foo', 'x']))
                b, _ = docgen.gen_doc(ra, docgen.Cfg(2, 3, env=['a', 'center'], cmd=['foo', 'x']))
                yield k, {'w': 'interleave', 'a': a[:200], 'b': b[:200], 'j': j,
                          'skip_a': ['a'] if j % 4 == 0 else []}
        for j in range(800 if q else 12000):
            k += 1
            if want(k):
                rng = random.Random('%d/%d/c17n' % (seed, j))
                if j % 3 == 0:
                    # token-kind alphabet, incl. bare (unbraced) arguments of
                    # the fixed-signature commands
                    src = strgen.random_string(
                        rng, strgen.TOKENS + ['\\textbf', '\\label', '\\section', '\\def', ' x', ' y.'], 2, 8)
                else:
                    src, _ = docgen.gen_doc(rng, common.cfg_general(j, 'quick'))
                yield k, {'w': 'noshare', 'src': src[:400]}

    def nontrivial(self, p):
        return len(p.get('src', p.get('a', ''))) >= 4

    def sample(self, p):
        return {k: (short(v, 120) if isinstance(v, str) else v) for k, v in p.items()}

    def check(self, p, ctx):
        before = sentinel()
        fails = getattr(self, 'check_' + p['w'])(p, ctx)
        after = sentinel()
        ctx.count('sentinel_checks')
        if before != after:
            fails = list(fails) + [fail('global-state-changed',
                                        'a module-level table / default / class attribute changed during a %s case'
                                        % p['w'])]
        return fails

    def check_hashseed(self, p, ctx):
        """replay of a hash-seed finding: two fresh interpreters"""
        outs = []
        for s in p['seeds']:
            with tempfile.TemporaryDirectory(prefix='tsv-c17-') as d:
                cp, op = os.path.join(d, 'c.json'), os.path.join(d, 'o.json')
                json.dump([p['src']], open(cp, 'w'))
                subprocess.run([env.PYTHON, '-B', '-m', 'tsv.props.c17_child', cp, op],
                               cwd=env.VERIF, check=True,
                               env=dict(os.environ, PYTHONHASHSEED=str(s), PYTHONPATH=env.VERIF))
                outs.append(json.load(open(op))['digests'][0])
        if outs[0] != outs[1]:
            return [fail('hash-seed-dependent', 'parsing %s differs under PYTHONHASHSEED=%s'
                         % (short(repr(p['src']), 80), p['seeds']))]
        return []

    def check_forms(self, p, ctx):
        src = p['src']
        ref = parse_obs(src)
        rng = random.Random(p['j'])
        forms = []
        if len(src) <= 40:
            for i in range(len(src) + 1):
                forms.append(('split@%d' % i, [src[:i], src[i:]]))
        for _ in range(6):
            cuts = sorted(rng.sample(range(len(src) + 1), min(len(src) + 1, rng.randint(1, 6))))
            chunks = [src[a:b] for a, b in zip([0] + cuts, cuts + [len(src)])]
            forms.append(('chunks', chunks))
        lines = src.splitlines(True)
        forms.append(('list-of-lines', lines))
        forms.append(('tuple-of-lines', tuple(lines)))
        forms.append(('generator', (l for l in lines)))
        forms.append(('chars', list(src)))
        forms.append(('StringIO', io.StringIO(src, newline='')))
        with tempfile.NamedTemporaryFile('w', suffix='.tex', prefix='tsv-c17-', delete=False,
                                         encoding='utf-8', newline='') as fh:
            fh.write(src)
            path = fh.name
        try:
            with open(path, encoding='utf-8', newline='') as fh:
                got = parse_obs(fh)
            ctx.count('form:file')
            if got != ref:
                return [fail('input-form', 'an open file gives a different result than the string %s'
                             % short(repr(src), 100))]
        finally:
            os.unlink(path)
        for name, form in forms:
            ctx.count('form:' + name.split('@')[0])
            got = parse_obs(form)
            if got != ref:
                return [fail('input-form', 'input form %s gives %s, the string gives %s (source %s)'
                             % (name, short(repr(got[:2]), 90), short(repr(ref[:2]), 90),
                                short(repr(src), 80)))]
        return []

    def check_interleave(self, p, ctx):
        a, b = p['a'], p['b']

        def solo(src, which, skip):
            try:
                return [f() for f in script(src, which, skip)]
            except DIAG as e:
                return ['exc:' + type(e).__name__]
        solo_a = solo(a, p['j'], p['skip_a'])
        solo_b = solo(b, p['j'] + 1, [])
        if len(solo_a) < 3 or len(solo_b) < 3:
            ctx.count('interleave_skipped_unparseable')
            return []
        for pos in itertools.combinations(range(6), 3):
            sa = script(a, p['j'], p['skip_a'])
            sb = script(b, p['j'] + 1, [])
            oa, ob = [], []
            ia = ib = 0
            for t in range(6):
                if t in pos:
                    oa.append(sa[ia]())
                    ia += 1
                else:
                    ob.append(sb[ib]())
                    ib += 1
            ctx.count('interleavings')
            if oa != solo_a or ob != solo_b:
                who = 'A' if oa != solo_a else 'B'
                return [fail('not-isolated', 'interleaving %r: observations of document %s differ from its solo run '
                             '(A=%s, B=%s)' % (pos, who, short(repr(a), 60), short(repr(b), 60)))]
        return []

    def check_noshare(self, p, ctx):
        from TexSoup import TexSoup
        src = p['src']
        try:
            s1, s2 = TexSoup(src), TexSoup(src)
        except DIAG:
            ctx.count('noshare_skipped_unparseable')
            return []
        if obs(s1) != obs(s2):
            return [fail('double-parse', 'two parses of %s differ' % short(repr(src), 100))]
        m1, m2 = reachable_mutables(s1.expr), reachable_mutables(s2.expr)
        shared = set(m1) & set(m2)
        ctx.count('objects_checked_for_sharing', len(m1) + len(m2))
        if shared:
            x = m1[next(iter(shared))]
            return [fail('shared-mutable', 'two parses of %s share %d mutable object(s), e.g. a %s %s'
                         % (short(repr(src), 80), len(shared), type(x).__name__, short(repr(x), 60)))]
        # an edit to the first tree must not show in the second
        before = obs(s2)
        s1.insert(0, 'X')
        for n in list(s1.children)[:1]:
            if len(n.args):
                n.args.append('{y}')
        if obs(s2) != before:
            return [fail('shared-mutable', 'editing one parse of %s changed the other' % short(repr(src), 80))]
        return []

    def gates(self, m, tier):
        g = []
        c = m['counters']
        if c.get('interleavings', 0) < 2000:
            g.append('fewer than 2000 interleavings executed')
        if c.get('hashseed_interpreters', 0) < (8 if tier == 'quick' else 64):
            g.append('hash-seed sweep incomplete (%s interpreters)' % c.get('hashseed_interpreters'))
        if c.get('order_interpreters', 0) < (6 if tier == 'quick' else 16):
            g.append('order sweep incomplete (%s interpreters)' % c.get('order_interpreters'))
        for f in ('split', 'chunks', 'list-of-lines', 'generator', 'StringIO', 'file'):
            if c.get('form:' + f, 0) < 100:
                g.append('input form %s used fewer than 100 times' % f)
        if c.get('objects_checked_for_sharing', 0) < 10000:
            g.append('fewer than 10000 objects checked for sharing')
        return g

    def extra_coverage(self, m, tier):
        return {'hash_seeds': list(range(8 if tier == 'quick' else 64))}


PROP = C17()
