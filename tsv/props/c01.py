"""C01 - parse -> serialise round trip is lossless on well-formed documents.

Boundary oracle over generated executions of the real parser: W1 documents
(grammar G with adjacent argument groups) and the repository's samples and
documentation examples.  For every parse: no exception, str(soup) == src, and
for every node / argument group / text token reachable in the tree,
src[position : position+len(text)] == text.
"""
from tsv.base import Prop, fail, short
from tsv.gen import docgen
from tsv.props import common
from tsv.model.align import only_ws_before_openers_removed

KINDS = ['text', 'comment', 'cmd', 'item', 'list', 'env', 'mathenv', 'group',
         'math$', 'math$$', 'math\\(', 'math\\[', 'verb', 'newcommand', 'sig']


def slices_ok(soup, src, ctx):
    """every node's text is the slice of the source at its position"""
    from TexSoup.data import TexExpr, TexText, TexNode
    from TexSoup.utils import Token
    n = 0
    for cont, where, idx, el in common.raw_nodes(soup.expr):
        if isinstance(el, TexText):
            tok = el._text
            pos = getattr(tok, 'position', None)
            text = str(tok)
        elif isinstance(el, TexExpr):
            pos, text = el.position, str(el)
        elif isinstance(el, Token):
            pos, text = el.position, str(el)
        else:
            return fail('node-slice', 'foreign object %r in the tree' % (el,))
        n += 1
        if not isinstance(pos, int) or pos < 0 or src[pos:pos + len(text)] != text:
            return fail('node-slice', '%s at position %r prints %s but the source has %s'
                        % (type(el).__name__, pos, short(repr(text), 80),
                           short(repr(src[pos:pos + len(text)] if isinstance(pos, int) else None), 80)))
    # the same through the public navigation API (what a user observes)
    for d in soup.descendants:
        pos = d.position
        text = str(d)
        n += 1
        if not isinstance(pos, int) or pos < 0 or src[pos:pos + len(text)] != text:
            return fail('node-slice', 'descendant %s at position %r prints %s, source has %s'
                        % (type(d).__name__, pos, short(repr(text), 80),
                           short(repr(src[pos:pos + len(text)] if isinstance(pos, int) else None), 80)))
    ctx.count('node_slices_checked', n)
    return None


class C01(Prop):
    id = 'C01'
    level = 'exploration'
    rule = ('cases: documents rendered from random syntax trees of the grammar '
            'G (all constructs, separator discipline enforced, depth/breadth '
            'rotated) plus every sample document and documentation literal of '
            'the repository; non-trivial = the document contains at least 3 '
            'construct kinds and one nesting level; distinct = by source text')
    assumptions = (
        'well-formed = derivable from grammar G under the context conditions '
        'of DESIGN 3.1 (argument groups adjacent to their command)',
        'corpus documents whose arguments are not adjacent are judged by the '
        'C08 relation (only whitespace before argument openers removed)',
    )
    probes = ('buf', 'tok', 'read', 'reach')
    probed_every = 16
    reach_required = ['reader.read_env', 'reader.read_skip_env', 'reader.read_spacer', 'reader.read_item', 'reader.read_math_env', 'reader.read_arg', 'data.TexEnv.__str__', 'data.TexCmd.__str__', 'data.TexArgs.__str__', 'tokens.tokenize_spacers']
    min_nontrivial = 1000
    budget_s = {'quick': 240, 'thorough': 3000}

    def cases(self, tier, seed, want):
        n = 24000 if tier == 'quick' else 300000
        yield from common.doc_cases(seed, n, want, 'c01',
                                    lambda j: common.cfg_general(j, tier))
        yield from common.corpus_cases(want, n)

    def nontrivial(self, p):
        if 'ast' not in p:
            return len(p['src']) > 20
        ast = docgen.totuple(p['ast'])
        return len(docgen.kinds(ast)) >= 3 and docgen.depth(ast) >= 2

    def sample(self, p):
        return {'src': short(p['src'], 300), 'origin': p.get('origin', 'grammar')}

    def check(self, p, ctx):
        src = p['src']
        if 'ast' not in p:
            # the documentation also shows deliberately malformed input;
            # a document the parser rejects with one of its diagnostics is
            # not a well-formed document and is only counted
            try:
                soup = common.parse(src)
            except (EOFError, TypeError, AssertionError):
                ctx.count('corpus_docs_rejected_with_diagnostic')
                return []
        else:
            soup = common.parse(src)       # an exception here is a violation
        out = str(soup)
        if 'ast' in p:
            ast = docgen.totuple(p['ast'])
            for k in docgen.kinds(ast):
                ctx.count('kind:' + k)
            docgen.adjacency(ast, ctx)
            if out != src:
                i = next((i for i, (a, b) in enumerate(zip(src, out)) if a != b),
                         min(len(src), len(out)))
                return [fail('roundtrip', 'str(soup) differs at offset %d: source %s, output %s'
                             % (i, short(repr(src[max(0, i - 15):i + 25]), 90),
                                short(repr(out[max(0, i - 15):i + 25]), 90)))]
        else:
            ctx.count('corpus_docs')
            if out != src:
                why = only_ws_before_openers_removed(src, out)
                if why:
                    return [fail('roundtrip', 'corpus document %s: %s' % (p['origin'], why))]
                ctx.count('corpus_docs_judged_by_C08_relation')
                return []
        f = slices_ok(soup, src, ctx)
        return [f] if f else []

    def shrink(self, p, still_fails):
        return common.shrink_doc(p, still_fails)

    def gates(self, m, tier):
        g = []
        for k in KINDS:
            if m['counters'].get('kind:' + k, 0) < 200:
                g.append('construct kind %s seen in fewer than 200 documents' % k)
        if len(m['sets'].get('sibling_pair', ())) < 100:
            g.append('fewer than 100 distinct sibling adjacency pairs')
        if m['counters'].get('corpus_docs', 0) < 10:
            g.append('corpus not exercised')
        return g


PROP = C01()
