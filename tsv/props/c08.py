"""C08 - serialisation conserves the characters of any parseable input.

Alignment oracle: for every input inside the domain (no NUL/DEL, signature
commands brace-delimited) that parses in strict mode, str(soup) must equal the
input except for deleted whitespace characters that belong to a whitespace
run standing directly before '{' or '['; nothing inserted, nothing reordered.
"""
import re

from tsv import findings
from tsv.base import Prop, fail, short
from tsv.props import common
from tsv.model.align import only_ws_before_openers_removed

DIAG = (EOFError, TypeError, AssertionError)


class C08(Prop):
    id = 'C08'
    level = 'exploration'
    rule = ('cases: token-alphabet strings (exhaustive up to the bound, seeded '
            'random up to 14 tokens), the literals of the repository tests and '
            'docs, single-character faults of W1 documents, W1 documents '
            'written with arbitrary attaching whitespace between commands and '
            'arguments - all filtered by the two side conditions; judged only '
            'when strict parsing succeeds. non-trivial = parses and has >= 2 '
            'tokens; distinct = by content')
    assumptions = (
        'whitespace removal is accepted before any opening brace/bracket '
        '(weaker than "of an argument group")',
        'inputs on which strict parsing raises a diagnostic are outside the '
        'property (counted)',
    )
    probes = ('tok', 'read', 'reach')
    probed_every = 12
    reach_required = ['reader.read_spacer', 'reader.read_arg_required', 'reader.read_arg_optional', 'reader.read_env', 'tokens.tokenize_string']
    min_nontrivial = 2000
    budget_s = {'quick': 240, 'thorough': 3600}
    exhaustive = {'quick': 'all strings of <= 2 tokens over the 70-token alphabet (inside the domain)',
                  'thorough': 'all strings of <= 3 tokens over the 70-token alphabet (inside the domain)'}

    def cases(self, tier, seed, want):
        yield from common.string_cases(tier, seed, want, 'c08')

    def nontrivial(self, p):
        return len(p['s']) >= 2

    def sample(self, p):
        return {'s': short(p['s'], 200), 'workload': p['w']}

    def check(self, p, ctx):
        s = p['s']
        from tsv.gen import strgen
        if not strgen.side_conditions_ok(s):
            return []          # outside the input domain (also guards shrinking)
        try:
            soup = common.parse(s)
        except DIAG:
            ctx.count('rejected_by_strict_parser')
            return []
        out = str(soup)
        ctx.count('judged')
        ctx.count('judged:' + p['w'].split(':')[0])
        if out != s:
            ctx.count('judged_with_whitespace_removed')
        why = only_ws_before_openers_removed(s, out)
        if why:
            return [fail('not-conserved', '%s; input %s -> output %s'
                         % (why, short(repr(s), 120), short(repr(out), 120)))]
        return []

    def shrink(self, p, still_fails):
        return common.shrink_text(p, still_fails, key='s', budget=300)

    def gates(self, m, tier):
        g = []
        c = m['counters']
        if c.get('judged', 0) < 5000:
            g.append('fewer than 5000 parseable inputs judged')
        if c.get('judged_with_whitespace_removed', 0) < 300:
            g.append('fewer than 300 inputs where whitespace was removed')
        for w in ('tokens', 'tokens-sampled', 'fault', 'spaced-doc', 'corpus'):
            if c.get('judged:' + w, 0) < 20:
                g.append('workload %s: fewer than 20 parseable inputs' % w)
        return g


PROP = C08()


# ---- known findings --------------------------------------------------------
_BEGIN_BRACKET = re.compile(r'\\begin\s*\[')


@findings.classifier('begin-bracket-name')
def _d11(prop, p, fails, rerun):
    """D11: a bracket group directly after \\begin is taken as the environment
    name and printed with braces."""
    s = p['s']
    if not _BEGIN_BRACKET.search(s):
        return False
    neutral = _BEGIN_BRACKET.sub(lambda m: m.group().replace('begin', 'bgn'), s)
    return findings.fixed_by(p, dict(p, s=neutral), fails, rerun)


_BEGIN = re.compile(r'\\begin\s*\{')


def _name_extent(s, start):
    """[start, end) of the content of the brace group opened just before
    `start` (nesting-aware; to the end of the string if it is unclosed)"""
    i, depth = start, 1
    while i < len(s) and depth:
        c = s[i]
        if c == '\\':
            i += 2
            continue
        if c == '%':
            # a comment runs to the end of its line: braces in it do not count
            while i < len(s) and s[i] not in '\n\r':
                i += 1
            continue
        depth += (c == '{') - (c == '}')
        i += 1
    return start, (i - 1 if depth == 0 else len(s))


def _strip_env_names(s):
    """-> (found, s with blanks at the edges of every \\begin{..} name removed,
    nested names included)"""
    found = False
    for _ in range(60):
        for m in _BEGIN.finditer(s):
            a, b = _name_extent(s, m.end())
            inner = s[a:b]
            if inner != inner.strip():
                s = s[:a] + inner.strip() + s[b:]
                found = True
                break
        else:
            break
    return found, s


@findings.classifier('env-name-stripped')
def _d15(prop, p, fails, rerun):
    """D15: blanks at the edges of an environment name are stripped
    (`\\begin{a }` prints `\\begin{a}`)."""
    found, neutral = _strip_env_names(p['s'])
    if not found:
        return False
    return findings.fixed_by(p, dict(p, s=neutral), fails, rerun)


@findings.neutraliser('env-name-stripped')
def _n_d15(p):
    return dict(p, s=_strip_env_names(p['s'])[1]) if 's' in p else p


@findings.neutraliser('begin-bracket-name')
def _n_d11(p):
    if 's' not in p:
        return p
    return dict(p, s=_BEGIN_BRACKET.sub(lambda m: m.group().replace('begin', 'bgn'), p['s']))
