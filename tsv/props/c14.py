"""C14 - renaming, re-stringing and re-argumenting change exactly that part.

One setter per fresh parse, three oracles: (1) the serialised text equals the
reference model's after the same change (a splice: only the target's own text
changes, both \\begin and \\end for an environment); (2) searches see the
change (find_all(new) contains the target, find_all(old) does not); (3)
re-parsing the new text gives the same tree shape as the edited tree.
"""
import itertools
import random
import re

from tsv.base import Prop, fail, short
from tsv.gen import docgen
from tsv.model import docmodel as D
from tsv.model import tree2ast
from collections import Counter

from tsv.model import refsearch as R
from tsv.props.c04 import check_node, all_nodes
from tsv.props.c15 import Exec, targets, string_settable

NEW_NAMES = ['rn', 'renamed', 'Zed', 'q*', 'emphx']
NEW_STRINGS = ['STR', 'Hello World', 'x', 'a b  c']
SEMANTIC = set(docgen.MENV + docgen.VENV + docgen.LST + docgen.SPECIAL +
               docgen.ZERO_ARG + docgen.ONE_ARG +
               ['section', 'def', 'item', 'begin', 'end'])


def has_semantics(name):
    return name in SEMANTIC or docgen.is_sizing(name) or any(
        name.startswith(p) for p in docgen.SIZING)


def cfg14(j):
    return docgen.Cfg(maxdepth=(2, 3, 3)[j % 3], size=(2, 3, 4)[j % 3],
                      twins=0.2, weights={'cmd': 26, 'env': 12, 'sizing': 1})


def shape_of(expr_contents):
    return docgen.tolist(tree2ast.conv_list(expr_contents, frozenset(docgen.VENV)))


def kinds_attach(kinds, is_env):
    """argument kind sequence that re-attaches completely when re-parsed:
    o* r* o* r* (the environment name brace counts as a leading r)"""
    s = ('r' if is_env else '') + ''.join(kinds)
    return re.fullmatch(r'o*r*o*r*', s) is not None


def ops_for(m, rng):
    ops = []
    for t, (n, holder, idx, owner, in_arg) in enumerate(targets(m)):
        if n.kind in ('cmd', 'env'):
            ops.append(['rename', t, rng.choice(NEW_NAMES)])
        if string_settable(n):
            ops.append(['set_string', t, rng.choice(NEW_STRINGS)])
            # the new string may coincide with text the node already holds
            own = [c.text for c in (n.args[0].body if n.kind == 'cmd' else n.body)
                   if c.kind == 'text' and re.fullmatch(r'[A-Za-z0-9 ,.;:!?+=-]*[A-Za-z0-9][A-Za-z0-9 ,.;:!?+=-]*', c.text)]
            if own:
                ops.append(['set_string', t, rng.choice(own)])
        if n.kind in ('cmd', 'env') and n.args and all(a.kind == 'arg' for a in n.args):
            k = len(n.args)
            ops.append(['args', t, 'slice', 0, rng.randint(0, k)])
            ops.append(['args', t, 'slice', rng.randint(0, k), k])
            perm = list(range(k))
            rng.shuffle(perm)
            # re-argumenting with a TexArgs built from a list / a one-shot iterable
            ops.append(['args', t, 'perm', perm,
                        rng.choice(['list', 'gen', 'reversed', 'map', 'tuple', 'iter'])])
            if k > 1:
                ops.append(['args', t, 'reverse'])
            ops.append(['args', t, 'arg_string', rng.randrange(k), rng.choice(NEW_STRINGS)])
            i = rng.randrange(k)
            own = [c.text for c in n.args[i].body
                   if c.kind == 'text' and re.fullmatch(r'[A-Za-z0-9 ,.;:!?+=-]*[A-Za-z0-9][A-Za-z0-9 ,.;:!?+=-]*', c.text)]
            if own and len(n.args[i].body) > 1:
                ops.append(['args', t, 'arg_string', i, rng.choice(own)])
    return ops


class C14(Prop):
    id = 'C14'
    level = 'exploration'
    rule = ('cases: W1 documents; every command / environment x {rename to a '
            'plain identifier, set string (single-argument commands, '
            'text-only environments), argument list prefix / suffix slice / '
            'permutation (TexArgs built from a list or from a one-shot iterable) / reversal, argument string}; one setter per fresh '
            'parse. non-trivial = every case (one real setter on a parsed '
            'node); distinct = by (source, operation)')
    assumptions = (
        're-parse equality is only required when neither the old nor the new '
        'name has parser semantics (verbatim-like, math, list, special, '
        'fixed-signature, sizing, item, begin, end), when the new argument '
        'kinds re-attach (o* r* o* r*), and when an emptied argument list '
        'does not let the name run into a following letter',
    )
    probes = ('args', 'reach')
    probed_every = 8
    reach_required = ['data.TexNode.name', 'data.TexNode.string', 'data.TexNode.args', 'data.TexNamedEnv.end', 'data.TexExpr.string', 'data.TexExpr.contents', 'data.TexArgs.__getitem__']
    min_nontrivial = 1000
    budget_s = {'quick': 240, 'thorough': 3000}

    def cases(self, tier, seed, want):
        ndocs = 700 if tier == 'quick' else 9000
        k = 0
        for j in range(ndocs):
            rng = random.Random('%d/%d/c14' % (seed, j))
            src, _ = docgen.gen_doc(rng, cfg14(j))
            if not 3 <= len(src) <= 320:
                continue
            try:
                ex = Exec(src)
                ops = ops_for(ex.m, rng)
            except Exception:
                k += 1
                if want(k):
                    yield k, {'src': src, 'op': None}
                continue
            for op in ops:
                k += 1
                if want(k):
                    yield k, {'src': src, 'op': op}

    def nontrivial(self, p):
        return p['op'] is not None

    def sample(self, p):
        return {'src': short(p['src'], 160), 'op': p['op']}

    def check(self, p, ctx):
        from TexSoup import TexSoup
        src, op = p['src'], p['op']
        ex = Exec(src)
        if op is None:
            return []
        if D.render(ex.m) != src:
            return [fail('setup', 'the model of the fresh parse does not render to the source')]
        n, holder, idx, owner, in_arg = targets(ex.m)[op[1]]
        old_name, old_text = n.name, D.render(n)
        pos = n.real.position
        is_env = n.kind == 'env'
        kindname = op[0] if op[0] != 'args' else 'args.' + op[2]
        ctx.count('op:' + kindname)
        ctx.seen('target_kind', (n.kind, 'in-arg' if in_arg else 'in-body'))
        why = ex.apply(op, real=True)
        if why:
            return [fail('setter', why)]
        got = str(ex.soup)
        new_text = D.render(n)
        expected = src[:pos] + new_text + src[pos + len(old_text):]
        if D.render(ex.m) != expected:
            return [fail('setup', 'model splice mismatch')]
        if got != expected:
            return [fail('setter-not-local', '%r on %s in %s gives %s, expected %s'
                         % (op, short(repr(old_text), 50), short(repr(src), 90),
                            short(repr(got), 90), short(repr(expected), 90)))]
        # (2) searches see the change
        if op[0] == 'rename':
            new = op[2]
            if not any(x.expr is n.real for x in ex.soup.find_all(new)):
                return [fail('search-after-setter', 'find_all(%r) does not return the renamed node' % new)]
            if any(x.expr is n.real for x in ex.soup.find_all(old_name)):
                return [fail('search-after-setter', 'find_all(%r) still returns the renamed node' % old_name)]
            if is_env:
                # searches by the opening / closing marker see the rename too
                for q, want in (('\\begin{%s}' % new, True), ('\\end{%s}' % new, True),
                                ('\\begin{%s}' % old_name, False)):
                    if new == old_name:
                        continue
                    found = any(x.expr is n.real for x in ex.soup.find_all(q))
                    if found != want:
                        return [fail('search-after-setter', 'after renaming %s to %s find_all(%r) %s the node'
                                     % (old_name, new, q, 'returns' if found else 'does not return'))]
            ctx.count('searches')
        # (2b) every navigation view / search sees the edited tree (an
        # argument that was dropped must be gone from contents, descendants,
        # text and find_all; a kept one must still be there)
        for N in all_nodes(ex.soup):
            f = check_node(N, ctx, False)
            if f:
                f['check'] = 'views-after-setter:' + f['check']
                f['detail'] = 'after %r: %s' % (op, f['detail'])
                return [f]
        want_text = D.texts(ex.m)
        got_text = [str(t) for t in ex.soup.text]
        if got_text != want_text:
            return [fail('views-after-setter:text', 'after %r soup.text is %s, expected %s'
                         % (op, short(repr(got_text), 100), short(repr(want_text), 100)))]
        for nm in D.names(ex.m)[:6]:
            if '{' in nm or '[' in nm:
                continue
            if Counter(id(e) for e in R.search(ex.soup.expr, nm)) != \
                    Counter(id(g.expr) for g in ex.soup.find_all(nm)):
                return [fail('views-after-setter:search', 'after %r find_all(%r) disagrees with the tree' % (op, nm))]
        # (3) re-parse shows the same change
        reparse = True
        if has_semantics(old_name or '') or (op[0] == 'rename' and has_semantics(op[2])):
            reparse = False
        if op[0] == 'args':
            kinds = ['o' if a.open == '[' else 'r' for a in n.args]
            if not kinds_attach(kinds, is_env):
                reparse = False
            if not n.args and n.kind == 'cmd':
                tail = expected[pos + len(new_text):pos + len(new_text) + 1]
                if tail.isalpha() or tail == '*':
                    reparse = False
            if not is_env and n.kind == 'cmd' and n.args and kinds[-1] == 'o' or \
                    (op[2] in ('slice', 'perm', 'reverse')):
                # fewer / other trailing groups: a following '[' or '{' in the
                # document may now attach (the separator discipline of the
                # source was relative to the old argument list)
                tail = expected[pos + len(new_text):]
                if re.match(r'[ \t]*\n?[ \t]*[\[{]', tail):
                    reparse = False
        if reparse:
            ctx.count('reparsed')
            again = TexSoup(got)
            d = tree2ast.first_diff(shape_of(ex.soup.expr._contents),
                                    shape_of(again.expr._contents))
            if d:
                return [fail('reparse-differs', 'after %r re-parsing %s does not show the same tree: %s'
                             % (op, short(repr(got), 100), short(d, 160)))]
            if str(again) != got:
                return [fail('reparse-differs', 're-parsed text does not round-trip')]
        return []

    def gates(self, m, tier):
        g = []
        c = m['counters']
        for op in ('rename', 'set_string', 'args.slice', 'args.perm', 'args.reverse', 'args.arg_string'):
            if c.get('op:' + op, 0) < 200:
                g.append('setter %s exercised fewer than 200 times' % op)
        if c.get('reparsed', 0) < 2000:
            g.append('fewer than 2000 re-parse comparisons')
        if len(m['sets'].get('target_kind', ())) < 4:
            g.append('targets not seen as command/environment in body and in argument')
        return g


PROP = C14()
