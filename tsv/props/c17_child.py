"""Fresh-interpreter worker of the C17 hash-seed sweep: parses every source
of the corpus (both tolerance modes) and writes one digest per case."""
import hashlib
import json
import sys

from tsv import env

env.setup_path()


def main(cpath, out, order_seed=None):
    env.assert_repo()
    from TexSoup import TexSoup
    corpus = json.load(open(cpath))
    order = list(range(len(corpus)))
    if order_seed is not None:
        import random
        random.Random(int(order_seed)).shuffle(order)
    res = [None] * len(corpus)
    for idx in order:
        src = corpus[idx]
        h = hashlib.blake2b(digest_size=8)
        for tol in (0, 1):
            try:
                s = TexSoup(src, tolerance=tol)
                h.update(repr((str(s), repr(s.expr))).encode())
            except (EOFError, TypeError, AssertionError) as e:
                h.update(('%s:%s' % (type(e).__name__, e)).encode())
        res[idx] = h.hexdigest()
    json.dump({'digests': res, 'order': order}, open(out, 'w'))


if __name__ == '__main__':
    main(*sys.argv[1:4])
