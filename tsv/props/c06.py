"""C06 - parsing is total: it terminates with a tree or a diagnostic error.

Outcome classifier + progress contracts + step budget + watchdog over
enumerated and fault-injected inputs, in both tolerance modes.

  * outcome must be a tree, or EOFError / TypeError / AssertionError raised by
    an explicit raise/assert of the reader (with layout-independent necessary
    conditions on the input); anything else is a leaked internal exception;
  * "never hangs" is restated as bounded progress: the in-situ monitors
    require every round of token rules to consume a character and every
    read_expr call to advance the token cursor, and the number of reader
    calls must stay within B(n) = 500 + 2 n^2 for an input of n characters;
    every loop of the package is bounded by a loop-iteration budget
    (sys.monitoring JUMP events: 50000 + 3000 n + 30 n^2 backward jumps);
  * the wall-clock alarm alone is never a verdict (inconclusive).
"""
import linecache
import os
import random
import traceback

from tsv import env, findings
from tsv.base import Prop, ProbeAbort, fail, short
from tsv.gen import strgen, mutgen, docgen
from tsv.props import common

DIAGNOSTICS = (EOFError, TypeError, AssertionError)


def budget(n):
    return 500 + 2 * n * n


def loop_budget(n):
    """backward jumps (loop iterations) allowed inside TexSoup for an input of
    n characters: >= 10x what the costliest legitimate inputs measured need
    (~2 100 per command name, ~40 per character)"""
    return 50000 + 3000 * n + 30 * n * n


def innermost_texsoup_frame(tb):
    root = os.path.join(env.REPO, 'TexSoup')
    last = None
    for fr in traceback.extract_tb(tb):
        if os.path.realpath(fr.filename).startswith(root):
            last = fr
    return last


def classify_outcome(s, e):
    """None if `e` is an acceptable diagnostic for input s, else a reason"""
    fr = innermost_texsoup_frame(e.__traceback__)
    name = type(e).__name__
    where = '%s:%s' % (os.path.basename(fr.filename), fr.name) if fr else '?'
    if not isinstance(e, DIAGNOSTICS):
        return 'leaked %s from %s: %s' % (name, where, short(str(e), 100))
    line = (fr.line or '').strip() if fr else ''
    if fr is None or os.path.basename(fr.filename) != 'reader.py' or \
            not (line.startswith('raise') or line.startswith('assert')):
        return ('%s does not come from a diagnostic raise/assert of the reader '
                'but from %s `%s`: %s' % (name, where, line[:60], short(str(e), 80)))
    if isinstance(e, AssertionError) and '\\begin' not in s and '\\item' not in s:
        return 'AssertionError on input without \\begin or \\item: %s' % short(str(e), 80)
    if isinstance(e, EOFError) and not any(t in s for t in ('\\begin', '$', '\\(', '\\[')):
        return 'EOFError on input without an environment or math opener: %s' % short(str(e), 80)
    if isinstance(e, TypeError) and '{' not in s and '[' not in s:
        return 'TypeError on input without a brace or bracket: %s' % short(str(e), 80)
    return None


_MEM = [False]


def _limit_memory():
    """safety net: an input whose result grows exponentially must end in a
    MemoryError of this worker (reported as a leak), not in the kernel
    killing it"""
    if not _MEM[0]:
        _MEM[0] = True
        try:
            import resource
            resource.setrlimit(resource.RLIMIT_AS, (3 << 30, 3 << 30))
        except Exception:
            pass


def parse_outcome(s, tol, ctx):
    """-> (kind, soup|exception|None, failure|None) with kind in
    tree / diagnostic / leak / budget"""
    from TexSoup import TexSoup
    from tsv.probe import install
    install.STEP_BUDGET['limit'] = budget(len(s))
    install.LOOP_BUDGET['limit'] = loop_budget(len(s))
    ctx.case_info = {}
    _limit_memory()
    try:
        soup = TexSoup(s, tolerance=tol)
    except ProbeAbort as e:
        if ctx.case_info.get('over_loop_budget'):
            return 'budget', None, fail(
                'loop-budget', 'tolerance=%d: more than %d loop iterations inside TexSoup for %d characters (%s): %s'
                % (tol, loop_budget(len(s)), len(s), e, short(repr(s), 100)), tol=tol)
        if ctx.case_info.get('over_budget'):
            return 'budget', None, fail(
                'step-budget', 'tolerance=%d: more than %d reader calls for %d characters: %s'
                % (tol, budget(len(s)), len(s), short(repr(s), 100)), tol=tol)
        raise
    except DIAGNOSTICS + (Exception,) as e:
        why = classify_outcome(s, e)
        if why:
            return 'leak', e, fail('leak', 'tolerance=%d: %s; input %s'
                                   % (tol, why, short(repr(s), 120)))
        return 'diagnostic', e, None
    finally:
        install.STEP_BUDGET['limit'] = None
        install.LOOP_BUDGET['limit'] = None
        ctx.maxi('max:steps', ctx.case_info.get('steps', 0))
        ctx.maxi('max:loop_iterations', ctx.case_info.get('jumps', 0))
        ctx.count('loop_iterations_observed', ctx.case_info.get('jumps', 0))
    return 'tree', soup, None


# one fault of a known kind -> the diagnostic class the statement names
DIAG_CONTEXTS = {
    'top': ('', ''), 'text': ('pre ', ' post'), 'group': ('{g ', ' h}'),
    'env': ('\\begin{center}c ', ' d\\end{center}'),
    'brace-arg': ('\\outer{p ', ' q}'), 'bracket-arg': ('\\outer[p ', ' q]'),
    'item': ('\\begin{itemize}\\item one ', ' two\\end{itemize}'),
    'nested': ('\\begin{a}\\outer{{ ', ' }}\\end{a}'),
}
DIAG_FAULTS = {
    # an unclosed environment or math region
    'EOFError': ['\\begin{zz}x', '\\begin{zz}x\\end{yy}', '\\begin{zz}\\begin{b}y\\end{b}',
                 '$x', '$$x', '\\[x', '\\(x', '\\begin{equation}x', '$x$$', '\\[x\\)',
                 '\\begin{verbatim}x', '\\begin{zz}[o]{r}x', '\\begin{align*}a&b'],
    # a malformed (unclosed) argument or group
    'TypeError': ['\\foo{x', '\\foo[x', '{x', '\\foo{a}{x', '\\foo[a]{x', '{a{b}',
                  '\\item[x', '\\foo{\\bar{x}'],
    # a \begin without a name, an \item in math mode
    'AssertionError': ['\\begin x', '\\begin', '\\begin\n\n{a}', '$\\item$', '\\[a \\item b\\]',
                       '\\begin{equation}\\item\\end{equation}',
                       '\\begin{align*}x\\\\\\item\\end{align*}', '\\begin.'],
}


class C06(Prop):
    id = 'C06'
    level = 'fault_enumeration'
    rule = ('cases (each parsed with tolerance 0 and 1): (i) every string over '
            'the 25-character category alphabet up to the length bound; (ii) '
            'every string over the 78-token alphabet up to the bound; (iii) '
            'seeded random token strings (incl. NUL/DEL/CR and bare signature '
            'commands) up to 14 tokens; (iv) every prefix, single-character '
            'deletion, sampled insertion and adjacent transposition of W1 '
            'documents; (v) nesting towers of 14 kinds to depth 40, closed and '
            'truncated after every unit; (vi) one fault of a known kind (unclosed '
            'environment / math region, unclosed argument or group, nameless '
            '\\begin, \\item in math) in 8 contexts: the diagnostic class the '
            'statement names for it; (vii) 16 kinds of long flat input (1500-3000 '
            'siblings / arguments / bracket-brace alternations at depth 1). non-trivial = length >= 2 ; distinct '
            '= by content')
    assumptions = (
        'diagnostic = EOFError/TypeError/AssertionError raised by an explicit '
        'raise/assert statement of TexSoup/reader.py',
        '"never hangs" is checked as bounded progress (strictly advancing '
        'cursors, <= 500+2n^2 reader calls); the 30 s per-case alarm alone '
        'is inconclusive',
    )
    always_probes = ('tok', 'read', 'loops')
    case_alarm = 300     # safety net only: verdicts come from the step budgets
    min_nontrivial = 5000
    budget_s = {'quick': 300, 'thorough': 5400}
    exhaustive = {
        'quick': 'all strings of length <= 3 over the 25-character alphabet and '
                 'of length <= 2 over the 78-token alphabet, x tolerance {0,1}',
        'thorough': 'all strings of length <= 4 over the 25-character alphabet '
                    'and of length <= 3 over the 78-token alphabet, x tolerance {0,1}',
    }

    def cases(self, tier, seed, want):
        q = tier == 'quick'
        k = 0
        # exhaustive parts (bounds differ per tier), then sampled longer ones
        Lc, Lt = (3, 2) if q else (4, 3)
        for k2, tup in strgen.enum_strings(strgen.CHARS, 0, Lc, start_k=k):
            if want(k2):
                yield k2, {'s': ''.join(tup), 'w': 'chars'}
        k += strgen.count_strings(strgen.CHARS, 0, Lc)
        for k2, tup in strgen.enum_strings(strgen.TOKENS, 2, Lt, start_k=k):
            if want(k2):
                yield k2, {'s': ''.join(tup), 'w': 'tokens'}
        k += strgen.count_strings(strgen.TOKENS, 2, Lt)
        toks = strgen.TOKENS + strgen.HOSTILE_TOKENS
        for j in range(30000 if q else 250000):
            k += 1
            if want(k):
                rng = random.Random('%d/%d/c06c' % (seed, j))
                yield k, {'s': strgen.random_string(rng, strgen.CHARS, Lc + 1, Lc + 4),
                          'w': 'chars-sampled'}
        for j in range(36000 if q else 800000):
            k += 1
            if want(k):
                rng = random.Random('%d/%d/c06r' % (seed, j))
                lo = Lt + 1
                yield k, {'s': strgen.random_string(rng, toks, lo, 3 if j % 3 and q else 14),
                          'w': 'tokens-sampled'}
        for j in range(16 if q else 800):
            rng = random.Random('%d/%d/c06d' % (seed, j))
            src, _ = docgen.gen_doc(rng, common.cfg_general(j, 'quick'))
            if len(src) > 260:
                src = src[:260]
            for kind, m in mutgen.faults(src, rng):
                k += 1
                if want(k):
                    yield k, {'s': m, 'w': 'fault:' + kind}
        # (vii) long flat inputs: the statement bounds the nesting depth, not
        # the length - thousands of siblings / arguments / alternations at
        # depth 1 must not exhaust the interpreter's stack either
        reps = (1500, 3000) if not q else (1500,)
        for n_ in reps:
            for name_, s_ in (
                    ('alt-or', '\\cmd' + '[o]{r}' * n_), ('alt-ro', '\\cmd' + '{r}[o]' * n_),
                    ('groups', '{a}' * n_), ('commands', '\\x' * n_), ('math', '$a$ ' * n_),
                    ('args', '\\cmd' + '{a}' * n_), ('comments', '%c\n' * n_),
                    ('items', '\\begin{itemize}' + '\\item a' * n_ + '\\end{itemize}'),
                    ('envs', '\\begin{a}x\\end{a}' * (n_ // 3)), ('brackets', '[' * n_),
                    ('closers', ']' * n_ + '}'), ('paragraphs', 'a\n\n' * n_),
                    ('item-args', '\\begin{itemize}\\item' + '[o]{r}' * n_ + '\\end{itemize}'),
                    ('env-args', '\\begin{a}' + '{r}[o]' * n_ + 'x\\end{a}'),
                    ('escapes', '\\%\\$' * n_), ('text', 'lorem ipsum ' * (n_ * 4))):
                k += 1
                if want(k):
                    yield k, {'s': s_, 'w': 'flat:' + name_}
        # (vi) which diagnostic for which fault: one fault of a known kind
        # in every context; strict mode must raise exactly the class the
        # statement names for it
        for exp, faults_ in DIAG_FAULTS.items():
            for f in faults_:
                for cname in DIAG_CONTEXTS:
                    k += 1
                    if want(k):
                        c0, c1 = DIAG_CONTEXTS[cname]
                        yield k, {'s': c0 + f + c1, 'w': 'diag-class', 'expect': exp,
                                  'fault': f, 'ctx': cname}
        import itertools as _it
        units = [(o,) for o in mutgen.GROWTH_OPEN]
        units += list(_it.product(mutgen.GROWTH_OPEN, repeat=2)) if not q else \
            [(a, b) for a in mutgen.GROWTH_OPEN[:7] for b in mutgen.GROWTH_OPEN[:7]]
        closers = [(c,) for c in mutgen.GROWTH_CLOSE] if q else \
            list(_it.product(mutgen.GROWTH_CLOSE, repeat=2))
        for u in units:
            for c in closers:
                k += 1
                if want(k):
                    yield k, {'w': 'growth', 'unit': ''.join(u), 'closer': ''.join(c),
                              's': ''.join(u) * 12 + 'x' + ''.join(c) * 12}
        for name in mutgen.TOWERS:
            alt = name in mutgen.ALTERNATING
            depths = list(range(1, 13)) + [16] if alt else list(range(1, 41))
            if q:
                # (super-polynomial shapes are the growth oracle's job in the
                # quick tier; depth 16 of the alternating towers is thorough)
                depths = [d for d in depths if (d <= 6 or d % 4 == 0) and not (alt and d > 12)]
            trunc_at = (6,) if alt else ((40, 6) if q else (40, 24, 15, 12, 6, 3))
            for d in depths:
                if d in trunc_at:
                    for t in mutgen.tower_truncations(name, d):
                        k += 1
                        if want(k):
                            yield k, {'s': t, 'w': 'tower:' + name, 'depth': d}
                else:
                    k += 1
                    if want(k):
                        yield k, {'s': mutgen.tower(name, d), 'w': 'tower:' + name,
                                  'depth': d}

    def nontrivial(self, p):
        return len(p['s']) >= 2

    def sample(self, p):
        return {'s': short(p['s'], 200), 'workload': p['w']}

    def check_growth(self, p, ctx):
        """reader calls at nesting depth 12 vs depth 8 of the same shape: a
        polynomial of degree <= 4 grows by at most (12/8)^4 = 5.1; doubling per
        level gives 16"""
        from TexSoup import TexSoup
        from tsv.probe import install
        fails = []
        _limit_memory()
        for tol in (0, 1):
            # size of the result at depth 6 vs 9 first (cheap): a result that
            # doubles per level must not be driven to depth 12 (2 fragments a
            # level: 24 levels, gigabytes)
            size = {}
            for d in (6, 9):
                s = p['unit'] * d + 'x' + p['closer'] * d
                install.STEP_BUDGET['limit'] = 20000
                ctx.case_info = {}
                try:
                    size[d] = len(str(TexSoup(s, tolerance=tol)))
                except MemoryError:
                    size[d] = 1 << 40
                except BaseException:
                    size[d] = 0
                finally:
                    install.STEP_BUDGET['limit'] = None
            ctx.maxi('max:output_growth_ratio_x100', int(100 * size[9] / max(size[6], 1)))
            if size[9] > 4000 and size[9] > 8 * size[6]:
                fails.append(fail('super-polynomial-output',
                                  'tolerance=%d: nesting %s…%s gives a result of %d characters at depth 6 and %s at depth 9 '
                                  '(x%.1f for 3 more levels; at depth 40 it cannot be held in memory)'
                                  % (tol, short(repr(p['unit']), 40), short(repr(p['closer']), 20), size[6],
                                     size[9] if size[9] < (1 << 40) else 'MemoryError',
                                     size[9] / max(size[6], 1)), tol=tol))
                continue
            n = {}
            for d in (8, 12):
                s = p['unit'] * d + 'x' + p['closer'] * d
                install.STEP_BUDGET['limit'] = 20000
                ctx.case_info = {}
                try:
                    TexSoup(s, tolerance=tol)
                except ProbeAbort:
                    if not ctx.case_info.get('over_budget'):
                        raise
                except Exception as e:
                    why = classify_outcome(s, e)
                    if why:
                        fails.append(fail('leak', 'tolerance=%d: %s; input %s' % (tol, why, short(repr(s), 120)),
                                          tol=tol))
                finally:
                    install.STEP_BUDGET['limit'] = None
                n[d] = ctx.case_info.get('steps', 0)
            ctx.count('growth_shapes_measured')
            ctx.maxi('max:growth_ratio_x100', int(100 * n[12] / max(n[8], 1)))
            if n[12] > 2000 and n[12] > 8 * n[8]:
                fails.append(fail('super-polynomial', 'tolerance=%d: nesting %s…%s costs %d reader calls at depth 8 and %d at depth 12 '
                                  '(x%.1f for 4 more levels; depth 40 is out of reach)'
                                  % (tol, short(repr(p['unit']), 40), short(repr(p['closer']), 20),
                                     n[8], n[12], n[12] / max(n[8], 1)), tol=tol))
        return fails

    def check(self, p, ctx):
        if p['w'] == 'growth':
            return self.check_growth(p, ctx)
        s = p['s']
        fails = []
        for tol in (0, 1):
            kind, obj, f = parse_outcome(s, tol, ctx)
            ctx.count('outcome:%s:tol%d' % (
                kind if kind != 'diagnostic' else type(obj).__name__, tol))
            ctx.count('workload:' + p['w'].split(':')[0])
            if p['w'].startswith('flat'):
                ctx.seen('flat_kind', p['w'])
            if p['w'].startswith('tower'):
                ctx.maxi('max:tower_depth', p.get('depth', 0))
                ctx.seen('tower_kind', p['w'])
            if f:
                fails.append(f)
            if p['w'] == 'diag-class' and not f:
                got = 'tree' if kind == 'tree' else type(obj).__name__
                ctx.count('diag_class_checked')
                # strict mode: exactly the named class; tolerant mode may repair
                # lost closers, but a nameless \begin, an \item in math and an
                # unclosed inline/display region stay errors of the same class
                if tol == 0 and got != p['expect']:
                    fails.append(fail('wrong-diagnostic', 'strict parsing of %s (%s in context %s) gives %s, '
                                      'the statement names %s for it'
                                      % (short(repr(s), 100), p['fault'], p['ctx'], got, p['expect']), tol=0))
                if tol == 1 and got not in ('tree', p['expect']):
                    fails.append(fail('wrong-diagnostic', 'tolerant parsing of %s gives %s (expected a tree or %s)'
                                      % (short(repr(s), 100), got, p['expect']), tol=1))
        return fails

    def shrink(self, p, still_fails):
        if len(p['s']) > 3000 or p['w'].startswith(('tower', 'flat')) or p['w'] in ('growth', 'diag-class'):
            return p
        return common.shrink_text(p, still_fails, key='s', budget=250)

    def gates(self, m, tier):
        g = []
        c = m['counters']
        for key in ('outcome:tree:tol0', 'outcome:EOFError:tol0', 'outcome:TypeError:tol0',
                    'outcome:AssertionError:tol0', 'outcome:tree:tol1'):
            if c.get(key, 0) < 100:
                g.append('%s observed fewer than 100 times' % key)
        if c.get('probe:tok', 0) < 100000 or c.get('probe:read_expr', 0) < 100000:
            g.append('progress monitors evaluated too rarely')
        if c.get('loop_iterations_observed', 0) < 1000000:
            g.append('loop-iteration monitor observed fewer than 10^6 backward jumps')
        if len(m['sets'].get('flat_kind', ())) < 16:
            g.append('not every kind of long flat input was run')
        if c.get('diag_class_checked', 0) < 400:
            g.append('diagnostic-class oracle evaluated fewer than 400 times')
        if c.get('growth_shapes_measured', 0) < 500:
            g.append('growth oracle measured fewer than 500 nesting shapes')
        if c.get('max:tower_depth', 0) < 40:
            g.append('no tower of depth 40 was run')
        if len(m['sets'].get('tower_kind', ())) < len(mutgen.TOWERS):
            g.append('not every tower kind was run')
        return g


PROP = C06()


@findings.classifier('exponential-peek-reparse')
def _d18(prop, p, fails, rerun):
    """D18: every command in an environment body is parsed twice (peek for
    \\end + read), so environment/argument alternations cost 2^depth."""
    if findings.checks_of(fails) - {'step-budget', 'timeout'}:
        return False
    import re
    s = p['s']
    if s.count('\\begin') < 10 and s.count('\\end') < 10:
        return False
    neutral = re.sub(r'\\(?:begin|end)\{[^{}]*\}', '', s)
    return findings.fixed_by(p, dict(p, s=neutral), fails, rerun)


@findings.classifier('tolerant-end-argument-reparse')
def _d21(prop, p, fails, rerun):
    r"""D21: in tolerant mode a `\end{...}` whose argument is not the name of
    the open environment is parsed by the peek in read_env and then again as
    an ordinary command; with environments nested inside such arguments the
    work doubles per level."""
    import re
    if findings.checks_of(fails) - {'step-budget', 'super-polynomial', 'loop-budget', 'timeout'}:
        return False
    if any(f.get('tol') != 1 for f in fails if f['check'] != 'timeout'):
        return False
    if not re.search(r'\\end\s*\{', p['s']) or '\\begin' not in p['s']:
        return False
    q = dict(p)
    for key in ('s', 'unit', 'closer'):
        if key in q:
            q[key] = re.sub(r'\\end(?=\s*\{)', r'\\xnd', q[key])
    return findings.fixed_by(p, q, fails, rerun)


_NESTED_NAME = None


@findings.classifier('tolerant-name-nesting-doubles-output')
def _d24(prop, p, fails, rerun):
    r"""D24: in tolerant mode an environment opened inside the (unclosed)
    name of another environment is printed twice per level - once in the
    `\begin{name}`, once in the `\end{name}` that tolerant mode inserts - so
    the size of the result doubles with every level of such nesting."""
    import re
    if findings.checks_of(fails) - {'super-polynomial-output', 'leak', 'timeout', 'step-budget',
                                    'loop-budget', 'probe:read'}:
        return False
    if any(f.get('tol') != 1 for f in fails if f['check'] not in ('timeout', 'probe:read')):
        return False
    if any(f['check'] in ('leak', 'probe:read') and 'MemoryError' not in f['detail'] for f in fails):
        return False
    text = p['unit'] * 3 if p.get('w') == 'growth' else p['s']
    # a \begin inside the (possibly unclosed) name group of another \begin,
    # at any brace depth
    from tsv.props.c08 import _name_extent
    nested = False
    for m in re.finditer(r'\\begin\s*\{', text):
        a, b = _name_extent(text, m.end())
        if '\\begin' in text[a:b]:
            nested = True
            break
    if not nested:
        return False
    q = dict(p)
    for key in ('s', 'unit'):
        if key in q:
            q[key] = re.sub(r'\\begin(?=\s*\{)', r'\\bgn', q[key])
    return findings.fixed_by(p, q, fails, rerun)
