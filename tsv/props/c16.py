"""C16 - serialised output is a fixed point of the parser.

Second run of the parser as oracle: t = str(TexSoup(s)); TexSoup(t) must
succeed, serialise to t again, and have the same shape (names, arguments,
contents) as the first tree.
"""
from tsv.base import Prop, fail, short
from tsv.gen import docgen
from tsv.model import tree2ast
from tsv.props import common

DIAG = (EOFError, TypeError, AssertionError)


def shape(soup):
    return docgen.tolist(tree2ast.conv_list(soup.expr._contents,
                                            frozenset(docgen.VENV)))


class C16(Prop):
    id = 'C16'
    level = 'exploration'
    rule = ('cases: as C08 (token strings exhaustive/sampled, test and doc '
            'literals, single-character faults of W1 documents, W1 documents '
            'with arbitrary attaching whitespace) filtered by the three side '
            'conditions (incl. sizing prefix followed by its delimiter); '
            'judged when strict parsing succeeds. non-trivial = parses and '
            'has >= 2 tokens; distinct = by content')
    assumptions = (
        'shape = the raw tree converted to the generator AST (names, argument '
        'kinds/order/contents, nesting), adjacent text leaves merged',
    )
    probes = ('read', 'reach')
    probed_every = 12
    reach_required = ['data.TexEnv.__str__', 'data.TexCmd.__str__', 'data.TexArgs.__str__', 'reader.read_arg_required', 'reader.read_arg_optional']
    min_nontrivial = 2000
    budget_s = {'quick': 240, 'thorough': 3600}
    exhaustive = {'quick': 'all strings of <= 2 tokens over the 70-token alphabet (inside the domain)',
                  'thorough': 'all strings of <= 3 tokens over the 70-token alphabet (inside the domain)'}

    def cases(self, tier, seed, want):
        yield from common.string_cases(tier, seed, want, 'c16', sizing=True)

    def nontrivial(self, p):
        return len(p['s']) >= 2

    def sample(self, p):
        return {'s': short(p['s'], 200), 'workload': p['w']}

    def check(self, p, ctx):
        s = p['s']
        from tsv.gen import strgen
        if not strgen.side_conditions_ok(s, sizing=True):
            return []          # outside the input domain (also guards shrinking)
        try:
            first = common.parse(s)
        except DIAG:
            ctx.count('rejected_by_strict_parser')
            return []
        t = str(first)
        ctx.count('judged')
        ctx.count('judged:' + p['w'].split(':')[0])
        if t != s:
            ctx.count('judged_where_output_differs_from_input')
        try:
            second = common.parse(t)
        except DIAG as e:
            return [fail('reparse-fails', 'output %s of input %s does not parse: %s: %s'
                         % (short(repr(t), 100), short(repr(s), 100), type(e).__name__,
                            short(str(e), 80)))]
        t2 = str(second)
        if t2 != t:
            return [fail('drift', 'input %s -> %s -> %s' % (
                short(repr(s), 90), short(repr(t), 90), short(repr(t2), 90)))]
        d = tree2ast.first_diff(shape(first), shape(second))
        if d:
            return [fail('shape-changes', 're-parsing %s gives a different tree at %s'
                         % (short(repr(t), 100), short(d, 160)))]
        return []

    def shrink(self, p, still_fails):
        return common.shrink_text(p, still_fails, key='s', budget=300)

    def gates(self, m, tier):
        g = []
        c = m['counters']
        if c.get('judged', 0) < 5000:
            g.append('fewer than 5000 parseable inputs judged')
        if c.get('judged_where_output_differs_from_input', 0) < 300:
            g.append('fewer than 300 inputs whose output differs from the input')
        return g


PROP = C16()
