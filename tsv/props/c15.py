"""C15 - any history of edits keeps the tree equal to a reference model.

History + executable document model, compared after *each* step:
  * str(soup) == model.render();
  * the set of expression objects in the tree (by identity) is exactly the
    model's: nothing untargeted is altered, duplicated or lost;
  * the C03/C04 relations recomputed on the edited tree (search == reference,
    descendants == closure, parent links, text view == the model's non-blank
    text leaves in document order, inserted material included).
Targets are addressed through the model by identity of the mirrored
expression object, so the model always edits the *targeted* occurrence.
"""
import random
from collections import Counter

from tsv.base import Prop, fail, short
from tsv.gen import docgen
from tsv.model import docmodel as D
from tsv.model import refsearch as R
from tsv.props.c04 import check_node, all_nodes
from tsv.props.c05 import enum_nodes

NEW_KINDS = {
    'cmd': '\\new%s{v}', 'env': '\\begin{nenv%s}w \\in%s{z}\\end{nenv%s}',
    'cmdopt': '\\nw%s[o]{p \\deep%s}', 'math': '$m%s$', 'group': '{g\\gin%s}',
}
SMALL_DOCS = [
    'a\\foo{x}b', '\\foo{x}\\foo{x}', '\\begin{a}p\\foo q\\end{a}',
    '\\begin{itemize}\\item u\\item u\\end{itemize}', '$x$ $x$', '{g}{g}',
    '\\foo[o]{r\\bar}t', '\\begin{a}[o]{r}\\b{c}\\end{a}', 'x\n\ny\n\n',
    '\\section{T}\\label{l}', '\\begin{equation}e\\end{equation}',
    '\\begin{verbatim}raw\\end{verbatim}z', '\\foo{\\bar{\\baz}}',
    '\\begin{itemize}\\item[l] a \\foo\\end{itemize}', '%c\n\\foo', '\\[m\\]\\(n\\)',
]


def uid_letters(n):
    s = ''
    n += 1
    while n:
        n, r = divmod(n - 1, 26)
        s = chr(97 + r) + s
    return s


def new_source(kind, uid):
    return NEW_KINDS[kind].replace('%s', uid_letters(uid))


def targets(m):
    return list(D.walk(m))


def containers(m):
    return [m] + [n for n, _, _, _, _ in D.walk(m) if n.supports_contents()]


def string_settable(n):
    if n.kind == 'cmd':
        return len(n.args) == 1 and n.args[0].kind == 'arg'
    if n.kind in ('env', 'math', 'group'):
        vis = [c for c in n.body if not (c.kind == 'text' and c.text.isspace())]
        # arguments that contribute nothing visible (`\begin{minipage}{}`,
        # `\begin{figure}[ ]`) leave the environment text-only
        hollow = all(a.kind == 'arg' and not [c for c in a.body
                                              if not (c.kind == 'text' and c.text.isspace())]
                     for a in n.args)
        return hollow and len(vis) == 1 and vis[0].kind == 'text'
    return False


def available_ops(m, variety=0):
    """every valid (op, target, index) in this model state (new material is
    chosen by `variety`, uids are assigned at execution)"""
    specs = [[['s', 'S']], [['n', 'cmd']], [['n', 'env'], ['s', ' ']],
             [['n', 'cmdopt']], [['s', 'T'], ['n', 'group']], [['n', 'math']],
             # the empty string is a legitimate (if useless) piece of text
             [['s', ''], ['n', 'cmd']], [['s', 'U'], ['s', ''], ['s', 'V']]]

    def spec(i):
        return specs[(i + variety) % len(specs)]
    ops = []
    for t, (n, holder, idx, owner, in_arg) in enumerate(targets(m)):
        # the body of a command that is no longer called \item (renamed) is
        # not editable by design (TexSoup raises its documented TypeError)
        editable = in_arg or owner.supports_contents()
        if editable:
            ops.append(['delete', t])
            ops.append(['replace_with', t, spec(t)])
            ops.append(['replace', t, spec(t + 1)])
        if not in_arg and owner.supports_contents():
            ops.append(['remove', t])
        if n.kind in ('cmd', 'env'):
            ops.append(['rename', t, 'rn' if n.name != 'rn' else 'item'])
        if string_settable(n):
            ops.append(['set_string', t, 'STR'])
        if n.kind in ('cmd', 'env'):
            ops.append(['args', t, 'append', '{u}'])
            ops.append(['args', t, 'insert', 0, '[w]'])
            if n.args:
                ops.append(['args', t, 'pop', -1])
                ops.append(['args', t, 'reverse'])
                ops.append(['args', t, 'slice', 0, 1])
                ops.append(['args', t, 'slice', 0, 0])
                ops.append(['args', t, 'slice', 1, len(n.args)])
                ops.append(['args', t, 'perm', list(range(len(n.args)))[::-1],
                            ('gen', 'list', 'reversed', 'iter')[(t + variety) % 4]])
                if n.args[0].kind == 'arg':
                    ops.append(['args', t, 'arg_string', 0, 'AS'])
    for c, C in enumerate(containers(m)):
        n = len(C.body)
        # every position, plus indices counted from the end and out of range
        # (list.insert semantics on the node's stored content list)
        for i in list(range(n + 1)) + [-1, -2, -n - 2, n + 2]:
            ops.append(['insert', c, i, spec(c + i)])
        ops.append(['append', c, spec(c)])
    return ops


class Exec:
    """executes one history on the real tree and on the model"""

    def __init__(self, src):
        from TexSoup import TexSoup
        self.soup = TexSoup(src)
        self.m = D.from_soup(self.soup)
        self.uid = 0

    def make_new(self, spec, real):
        """-> (list for the real API | None, list of model nodes)"""
        from TexSoup import TexSoup
        api, models = [], []
        for kind, v in spec:
            if kind == 's':
                api.append(v)
                models.append(D.MN('text', real=None, text=v))
            else:
                src = new_source(v, self.uid)
                self.uid += 1
                node = TexSoup(src).contents[0].copy() if real else None
                if real:
                    api.append(node)
                    models.append(D.from_expr(node.expr))
                else:
                    models.append(static_model(src))
        return api, models

    def wrapper(self, mn):
        """the TexNode for a model node, reached through the public views"""
        for node, parent in enum_nodes(self.soup):
            if node.expr is mn.real:
                return node, parent
        return None, None

    def cont_wrapper(self, C):
        if C.kind == 'root':
            return self.soup
        return self.wrapper(C)[0]

    def apply(self, op, real=True):
        """apply to the model and (if real) to the real tree.  Returns a
        failure string or None."""
        m = self.m
        kind = op[0]
        if kind in ('insert', 'append'):
            C = containers(m)[op[1]]
            i = op[2] if kind == 'insert' else len(C.body)
            api, models = self.make_new(op[-1], real)
            if real:
                w = self.cont_wrapper(C)
                if w is None:
                    return 'container %s is not reachable through the navigation views' % short(D.render(C), 40)
                if kind == 'insert':
                    w.insert(i, *api)
                else:
                    w.append(*api)
            C.body[i:i] = models
            return None
        n, holder, idx, owner, in_arg = targets(m)[op[1]]
        if real:
            w, parent = self.wrapper(n)
            if w is None:
                return 'node %s is not reachable through the navigation views' % short(D.render(n), 40)
        if kind == 'delete':
            if real:
                w.delete()
            del holder[idx]
        elif kind == 'remove':
            if real:
                parent.remove(w)
            del holder[idx]
        elif kind in ('replace_with', 'replace'):
            api, models = self.make_new(op[2], real)
            if real:
                if kind == 'replace_with':
                    w.replace_with(*api)
                else:
                    parent.replace(w, *api)
            holder[idx:idx + 1] = models
        elif kind == 'rename':
            if real:
                w.name = op[2]
            n.name = op[2]
        elif kind == 'set_string':
            if real:
                w.string = op[2]
            if n.kind == 'cmd':
                n.args[0].body = [D.MN('text', text=op[2])]
            else:
                n.body = [D.MN('text', text=op[2])]
        elif kind == 'args':
            sub = op[2]

            def marg(s):
                return D.MN('arg', body=[D.MN('text', text=s[1:-1])] if s[1:-1] else [],
                            open=s[0], close=s[-1])
            if sub == 'append':
                if real:
                    w.args.append(op[3])
                n.args.append(marg(op[3]))
            elif sub == 'insert':
                if real:
                    w.args.insert(op[3], op[4])
                n.args.insert(op[3], marg(op[4]))
            elif sub == 'pop':
                if real:
                    w.args.pop(op[3])
                n.args.pop(op[3])
            elif sub == 'reverse':
                if real:
                    w.args.reverse()
                n.args.reverse()
            elif sub == 'slice':
                if real:
                    w.args = w.args[op[3]:op[4]]
                n.args = n.args[op[3]:op[4]]
            elif sub == 'perm':
                if real:
                    from TexSoup.data import TexArgs
                    how = op[4] if len(op) > 4 else 'list'
                    old = list(w.args)
                    items = [old[i] for i in op[3]]
                    # the constructor takes any iterable, one-shot ones included
                    if how == 'gen':
                        items = (x for x in items)
                    elif how == 'reversed':
                        items = reversed(items[::-1])
                    elif how == 'map':
                        items = map(lambda x: x, items)
                    elif how == 'tuple':
                        items = tuple(items)
                    elif how == 'iter':
                        items = iter(items)
                    w.args = TexArgs(items)
                n.args = [n.args[i] for i in op[3]]
            elif sub == 'arg_string':
                if real:
                    w.args[op[3]].string = op[4]
                n.args[op[3]].body = [D.MN('text', text=op[4])]
        else:
            raise ValueError(op)
        return None


def static_model(src):
    """model of new material without the real parser (used while enumerating
    histories): parse with TexSoup is avoided on purpose - the shapes are
    fixed by NEW_KINDS"""
    from TexSoup import TexSoup
    return D.from_expr(TexSoup(src).contents[0].expr)


def after_step(ex, ctx, step, op):
    soup, m = ex.soup, ex.m
    got, exp = str(soup), D.render(m)
    if got != exp:
        return fail('text!=model', 'after step %d %r the document is %s, the model says %s'
                    % (step, op, short(repr(got), 110), short(repr(exp), 110)))
    # identity conservation: untargeted nodes neither altered, duplicated nor lost
    real_ids = Counter(id(c) for c in R.closure(soup.expr) if not R.is_text(c))
    # (model nodes of freshly coerced material have no `real`; they are text/args only)
    model_ids = Counter(D.node_ids(m))
    if real_ids != model_ids:
        return fail('nodes-not-conserved', 'after step %d %r the tree holds %d expression objects, the model %d '
                    '(lost %d, foreign/duplicated %d)'
                    % (step, op, sum(real_ids.values()), sum(model_ids.values()),
                       sum((model_ids - real_ids).values()), sum((real_ids - model_ids).values())))
    # navigation / search consistency on the edited tree
    for N in all_nodes(soup):
        f = check_node(N, ctx, False)
        if f:
            f['check'] = 'views:' + f['check']
            f['detail'] = 'after step %d %r: %s' % (step, op, f['detail'])
            return f
    want_text = D.texts(m)
    got_text = [str(t) for t in soup.text]
    if got_text != want_text:
        return fail('views:text', 'after step %d %r soup.text is %s, the model\'s text leaves are %s'
                    % (step, op, short(repr(got_text), 100), short(repr(want_text), 100)))
    for name in D.names(m)[:8]:
        if '{' in name or '[' in name:
            continue
        exp_ids = Counter(id(e) for e in R.search(soup.expr, name))
        got_ids = Counter(id(g.expr) for g in soup.find_all(name))
        if exp_ids != got_ids:
            return fail('views:search', 'after step %d %r find_all(%r) returns %d nodes, the tree contains %d'
                        % (step, op, name, sum(got_ids.values()), sum(exp_ids.values())))
        ctx.count('searches_after_edit')
    # searches by opening marker (\begin{name}) see renames / inserted envs
    for c, _, _, _, _ in list(D.walk(m))[:40]:
        if c.kind == 'env':
            q = '\\begin{%s}' % c.name
            exp_ids = Counter(id(e) for e in R.search(soup.expr, q))
            got_ids = Counter(id(g.expr) for g in soup.find_all(q))
            if exp_ids != got_ids or id(c.real) not in got_ids:
                return fail('views:search', 'after step %d %r find_all(%r) returns %d nodes, the tree contains %d'
                            % (step, op, q, sum(got_ids.values()), sum(exp_ids.values())))
    for node, parent in enum_nodes(soup):
        if node.parent is not parent:
            return fail('views:parent', 'after step %d %r a node has the wrong parent' % (step, op))
    return None


class C15(Prop):
    id = 'C15'
    level = 'exploration'
    rule = ('cases: edit histories (delete, replace_with, parent.replace, '
            'parent.remove, insert at every index (also negative / out of range), append, rename, set string, '
            'argument-list append/insert/pop/reverse/slice/argument string) '
            'with unique fresh nodes (copies of nodes parsed elsewhere) and '
            'plain strings as new material; exhaustive over all valid '
            '(op, target, index) to the depth bound on 16 small documents '
            'with twins, seeded random histories of length 4..25 on W1 '
            'documents. non-trivial = history of >= 2 steps; distinct = by '
            '(document, history)')
    assumptions = (
        'the model is built from the initial parse (validated against the '
        'generating tree by C02)',
        'new nodes are used once (.copy() shares the expression object)',
    )
    probes = ('edit', 'args', 'reach')
    probed_every = 6
    reach_required = ['data.TexNode.delete', 'data.TexNode.replace', 'data.TexNode.insert', 'data.TexNode.append', 'data.TexExpr.remove', 'data.TexExpr.insert', 'data.TexArgs.insert', 'data.TexArgs.pop', 'data.TexArgs.reverse', 'data.TexNode.string']
    min_nontrivial = 1000
    budget_s = {'quick': 280, 'thorough': 3600}
    exhaustive = {
        'quick': 'all histories of depth 2 over all valid (op, target, index) on 16 small documents',
        'thorough': 'all histories of depth 2 on 16 small documents and of depth 3 on 3 of them',
    }

    def _dfs(self, src, depth, want, counter):
        ex0 = Exec(src)

        def rec(hist):
            ex = Exec(src)
            for op in hist:
                ex.apply(op, real=False)
            if len(hist) == depth:
                return
            for op in available_ops(ex.m, variety=len(hist)):
                h = hist + [op]
                if len(h) == depth:
                    counter[0] += 1
                    if want(counter[0]):
                        yield counter[0], {'src': src, 'ops': h}
                else:
                    yield from rec(h)
        yield from rec([])

    def cases(self, tier, seed, want):
        counter = [0]
        for i, src in enumerate(SMALL_DOCS):
            yield from self._dfs(src, 2, want, counter)
            if tier != 'quick' and i in (0, 4, 8):
                yield from self._dfs(src, 3, want, counter)
        k = counter[0]
        n = 1500 if tier == 'quick' else 30000
        for j in range(n):
            k += 1
            if not want(k):
                continue
            rng = random.Random('%d/%d/c15' % (seed, j))
            cfg = docgen.Cfg(maxdepth=(2, 3)[j % 2], size=(2, 3, 4)[j % 3], twins=0.3,
                             cmd=['foo', 'bar', 'x'], env=['a', 'center'],
                             weights={'verb': 2, 'newcommand': 1, 'sig': 2, 'comment': 3})
            src, _ = docgen.gen_doc(rng, cfg)
            if len(src) > 220:
                src = SMALL_DOCS[j % len(SMALL_DOCS)]
            try:
                ex = Exec(src)
            except Exception:
                yield k, {'src': src, 'ops': []}
                continue
            hist = []
            for step in range(rng.randint(4, 25)):
                ops = available_ops(ex.m, variety=rng.randint(0, 5))
                if not ops:
                    break
                op = rng.choice(ops)
                ex.apply(op, real=False)
                hist.append(op)
            yield k, {'src': src, 'ops': hist, 'random': True}

    def nontrivial(self, p):
        return len(p['ops']) >= 2

    def sample(self, p):
        return {'src': short(p['src'], 120), 'ops': p['ops'][:6]}

    def check(self, p, ctx):
        ex = Exec(p['src'])
        f = after_step(ex, ctx, -1, 'parse')
        if f:
            return [f]
        for step, op in enumerate(p['ops']):
            why = ex.apply(op, real=True)
            ctx.count('steps')
            ctx.seen('op', op[0] if op[0] != 'args' else 'args.' + op[2])
            if why:
                return [fail('views:unreachable', 'step %d %r: %s' % (step, op, why))]
            f = after_step(ex, ctx, step, op)
            if f:
                return [f]
        return []

    def shrink(self, p, still_fails):
        ops = list(p['ops'])
        # histories are position dependent; only try dropping a suffix/prefix
        for cut in range(len(ops) - 1, 0, -1):
            q = dict(p, ops=ops[:cut])
            if still_fails(q):
                ops = q['ops']
            else:
                break
        return dict(p, ops=ops) if len(ops) < len(p['ops']) else p

    def gates(self, m, tier):
        g = []
        if m['counters'].get('steps', 0) < 20000:
            g.append('fewer than 20000 edit steps compared with the model')
        if len(m['sets'].get('op', ())) < 14:
            g.append('fewer than 14 distinct operation kinds exercised')
        if m['counters'].get('searches_after_edit', 0) < 20000:
            g.append('fewer than 20000 searches on edited trees')
        return g


PROP = C15()
