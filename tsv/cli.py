import argparse
import os
import sys


def main():
    ap = argparse.ArgumentParser()
    ap.add_argument('pid')
    ap.add_argument('--tier', default=os.environ.get('VERIF_TIER', 'quick'),
                    choices=['quick', 'thorough'])
    ap.add_argument('--replay')
    ap.add_argument('--seed', type=int,
                    default=int(os.environ.get('VERIF_SEED', '0') or 0))
    a = ap.parse_args()
    from tsv import runner
    sys.exit(runner.run(a.pid.upper(), a.tier, a.seed, replay=a.replay))


if __name__ == '__main__':
    main()
