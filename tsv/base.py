"""Common vocabulary of the checks: a property = workload + oracle.

A `Prop` subclass provides

  cases(tier, seed, want)  -> iterator of (k, payload)   the workload (W)
  check(payload, ctx)      -> list of failure dicts       the oracle   (M)
  nontrivial(payload)      -> bool                        evidence rule
  sample(payload)          -> JSON-able short description for the evidence

`payload` is always a JSON-able, self-contained description of the case, so a
replay file can re-run exactly that case with `check`.

`ctx` (class Ctx) is where oracles and probes *record what they observed*:
counters, distinct-value sets, and the in-situ monitors' violation list.
"""
import hashlib
import json


class CaseTimeout(BaseException):
    """Raised by the per-case SIGALRM; BaseException so `except Exception`
    inside the code under test cannot swallow it."""


class ProbeAbort(BaseException):
    """raised by an in-situ progress monitor to break an endless loop"""


class Ctx:
    def __init__(self):
        self.probes_light = False
        self.counters = {}
        self.sets = {}
        self.probe_violations = []   # filled by in-situ monitors
        self.case_info = {}          # scratch for the current case
        self.probes_on = False

    def count(self, name, n=1):
        self.counters[name] = self.counters.get(name, 0) + n

    def seen(self, group, value):
        s = self.sets.get(group)
        if s is None:
            s = self.sets[group] = set()
        s.add(value)

    def maxi(self, name, v):
        if v > self.counters.get(name, 0):
            self.counters[name] = v


def digest(payload):
    raw = json.dumps(payload, sort_keys=True, ensure_ascii=True,
                     separators=(',', ':')).encode()
    return int.from_bytes(hashlib.blake2b(raw, digest_size=8).digest(), 'big')


def fail(check, detail, **extra):
    d = {'check': check, 'detail': detail}
    d.update(extra)
    return d


def short(s, n=160):
    s = s if isinstance(s, str) else repr(s)
    return s if len(s) <= n else s[:n // 2] + ' …[%d]… ' % len(s) + s[-n // 2:]


class Prop:
    id = None
    level = 'exploration'
    rule = ''
    assumptions = ()
    #: probes installed in the probed pass (names understood by tsv.probe)
    probes = ()
    #: the probed pass runs every Nth case of the workload (0 = no probed pass)
    probed_every = 0
    #: per-case wall-clock alarm (seconds) - firing alone is *inconclusive*
    case_alarm = 30
    #: minimum number of distinct non-trivial cases for a "held" verdict
    min_nontrivial = 20
    #: hash-seed for workers ('0' everywhere except where a check sweeps it)
    exhaustive = {}

    def cases(self, tier, seed, want):
        raise NotImplementedError

    def check(self, payload, ctx):
        raise NotImplementedError

    def nontrivial(self, payload):
        return True

    def sample(self, payload):
        return payload

    def shrink(self, payload, still_fails):
        """Return a smaller payload that still fails (default: no shrinking)."""
        return payload

    def gates(self, merged, tier):
        """Return a list of unmet gates (strings) -> inconclusive."""
        return []

    def extra_coverage(self, merged, tier):
        return {}

    # hooks for checks that need something outside the per-case loop
    def pre_run(self, tier, seed, scratch):
        return None

    def post_run(self, tier, seed, merged, scratch):
        """May return a list of extra failures (each: payload, failure)."""
        return []
