"""W1b - the repository's sample documents and the documentation's examples,
extracted at run time from the current tree."""
import ast
import glob
import os
import re

from tsv import env

_LIT = re.compile(
    r"TexSoup\(\s*((?:r|R)?(?:'''(?:.|\n)*?'''|\"\"\"(?:.|\n)*?\"\"\"|"
    r"'(?:[^'\\\n]|\\.)*'|\"(?:[^\"\\\n]|\\.)*\"))")


def _doctest_unprompt(text):
    """literals inside doctests span '... ' continuation lines"""
    return re.sub(r'\n[ \t]*\.\.\. ?', '\n', text)


def _literals(text):
    out = []
    for m in _LIT.finditer(_doctest_unprompt(text)):
        try:
            v = ast.literal_eval(m.group(1))
        except Exception:
            continue
        if isinstance(v, str):
            out.append(v)
    return out


def documents():
    """-> list of (origin, source)"""
    docs = []
    root = env.REPO
    for f in sorted(glob.glob(os.path.join(root, 'tests', 'samples', '*.tex'))):
        with open(f, encoding='utf-8') as fh:
            docs.append(('sample:' + os.path.basename(f), fh.read()))
    texts = []
    for pat in ('docs/source/*.rst', 'README.md', 'examples/*.py', 'examples/*.md'):
        for f in sorted(glob.glob(os.path.join(root, pat))):
            with open(f, encoding='utf-8') as fh:
                texts.append((os.path.relpath(f, root), fh.read()))
    for f in sorted(glob.glob(os.path.join(root, 'TexSoup', '*.py'))):
        with open(f, encoding='utf-8') as fh:
            src = fh.read()
        try:
            tree = ast.parse(src)
        except SyntaxError:
            continue
        for node in ast.walk(tree):
            if isinstance(node, (ast.FunctionDef, ast.ClassDef, ast.Module)):
                d = ast.get_docstring(node, clean=False)
                if d:
                    texts.append((os.path.relpath(f, root), d))
    seen = set()
    for origin, text in texts:
        for lit in _literals(text):
            if lit not in seen:
                seen.add(lit)
                docs.append(('doc:' + origin, lit))
    for f in sorted(glob.glob(os.path.join(root, 'tests', 'test_*.py'))):
        with open(f, encoding='utf-8') as fh:
            for lit in _literals(fh.read()):
                if lit not in seen:
                    seen.add(lit)
                    docs.append(('test:' + os.path.basename(f), lit))
    return docs
