"""W1 - documents derived from the grammar of documented constructs, together
with their syntax tree (the ground truth).

AST nodes (tuples, JSON-able as lists):

  ('T', text)                text run (adjacent runs are merged)
  ('K', text)                %-comment: '%' + payload, without the line break
  ('C', name, args)          command; args = [(kind, body)], kind 'o' = [..],
                             'r' = {..}, 'c' = bare command argument of \\def
                             (body = the command name)
  ('I', args, body)          \\item
  ('E', name, args, body)    \\begin{name}args body \\end{name} (plain, list
                             and named math environments)
  ('G', body)                brace group
  ('M', open, body)          $..$  $$..$$  \\(..\\)  \\[..\\]
  ('V', name, text)          verbatim-like environment with raw body

`normalise` enforces the *separator discipline* (DESIGN 3.1) that makes the
tree <-> text relation unambiguous; it is a restriction of the input domain
to what the property statements cover and is re-asserted on the rendered text
by `assert_discipline`.
"""
import random
import re
import string

CMD = ['foo', 'bar', 'emph', 'textit', 'ref', 'cite', 'title', 'x', 'Question',
       'hspace*', 'color', 'frac', 'sqrt', 'caption', 'alpha', 'LaTeX']
ENV = ['document', 'center', 'theorem', 'tabular', 'figure', 'a', 'proof',
       'abstract', 'table*', 'text']
LST = ['itemize', 'enumerate', 'description']
MENV = ['align', 'align*', 'alignat', 'array', 'displaymath', 'eqnarray',
        'eqnarray*', 'equation', 'equation*', 'flalign', 'flalign*', 'gather',
        'gather*', 'math', 'multline', 'multline*', 'split']
VENV = ['verbatim', 'lstlisting', 'Verbatim', 'listing', 'verbatimtab']
SPECIAL = ['newcommand', 'renewcommand', 'providecommand']
ZERO_ARG = ['cap', 'cup', 'in', 'notin', 'infty', 'noindent']
ONE_ARG = ['textbf', 'label']
SIZING = ['left', 'right', 'big', 'Big', 'bigg', 'Bigg']
DELIMS = ['(', ')', '<', '>', '[', ']', '\\{', '\\}', '.', '|', '\\langle',
          '\\rangle', '\\lfloor', '\\rfloor', '\\lceil', '\\rceil',
          '\\ulcorner', '\\urcorner', '\\lbrack', '\\rbrack']
MATH_CLOSE = {'$': '$', '$$': '$$', '\\(': '\\)', '\\[': '\\]'}

# names that share a prefix with the structural keywords / signature table
TRICKY = ['endnote', 'itemsep', 'begingroup', 'endgroup', 'itemindent', 'labelsep',
          'sectionmark', 'textbff', 'defn', 'inx', 'capx', 'leftarrow',
          'rightarrow', 'bigskip', 'newcommandx', 'ends', 'items', 'begins',
          'section*', 'textbf*', 'label*', 'cup*', 'noindent*', 'item*', 'begin*',
          'end*', 'newcommand*', 'def*',
          # names the data model uses internally for text / groups / regions
          'text', 'text', 'BraceGroup', 'BracketGroup', 'displaymath', 'math', 'tex',
          # one- to three-letter names that are substrings of item / end / begin
          'i', 't', 'e', 'm', 'it', 'em', 'te', 'tem', 'n', 'd', 'en', 'nd', 'b', 'g', 'be', 'gin']

PLAIN = list('abcxyzABC0123456789') + ['hello', 'world', 'foo bar', 'lorem ipsum']
PUNCT = list(',;:!?-+=<>"\'`@/|.&#^_~()') + ['é', '😂', 'ß', 'Ω']
# characters Python's str.isspace()/strip()/splitlines() treat as blank or as
# line boundaries although the categoriser files them under Other: a change
# that swaps an explicit ' \t' test for a str method shows only on these
UNIWS = ['\xa0', '\x0b', '\x0c', '\x1c', '\x85', '\u2028', '\u3000']
WS = [' ', '  ', '\n', '\n\n', '\t', ' \n ', '\n  ', '\n\n\n', ' \t ', '\r\n',
      ' ', '\n', '\n  ', '  ', '\r', '\r\n  ']
ESC = ['\\%', '\\$', '\\{', '\\}', '\\&', '\\#', '\\_', '\\ ', '\\,', '\\;',
       '\\!', '\\\\', '\\~', '\\^', '\\-', '\\/', '\\*', '\\1', '\\"']

DEFAULT_WEIGHTS = {
    'text': 30, 'cmd': 16, 'env': 7, 'group': 7, 'comment': 6, 'list': 6,
    'math': 7, 'mathenv': 4, 'verb': 4, 'newcommand': 3, 'sig': 4,
    'sizing': 0,
}


class Cfg:
    def __init__(self, maxdepth=3, size=3, weights=None, cmd=None, env=None,
                 twins=0.0, brackets_in_text=True, eof_comment=True, tricky=0.12):
        self.maxdepth = maxdepth
        self.size = size
        self.weights = dict(DEFAULT_WEIGHTS)
        if weights:
            self.weights.update(weights)
        self.cmd = cmd or CMD
        self.env = env or ENV
        self.twins = twins
        self.brackets_in_text = brackets_in_text
        self.eof_comment = eof_comment
        self.tricky = tricky


TOP = {'opt': False, 'math': False, 'verb_ok': True, 'list_ok': True}


class DocGen:
    def __init__(self, rng, cfg=None):
        self.r = rng
        self.cfg = cfg or Cfg()
        # the document's own macros: names no other document of the process
        # has used (so that anything the parser might remember about a name
        # is still unknown at the first parse), used as ordinary commands
        # before, inside and after their \newcommand
        r2 = random.Random(rng.random())
        self.macros = ['m' + ''.join(r2.choice(string.ascii_lowercase) for _ in range(7))
                       for _ in range(2)]

    # ---- leaves -----------------------------------------------------------
    def textrun(self, ctx):
        r = self.r
        parts = []
        for _ in range(r.randint(1, 4)):
            c = r.random()
            if c < .40:
                parts.append(r.choice(PLAIN))
            elif c < .56:
                parts.append(r.choice(PUNCT))
            elif c < .58:
                parts.append(r.choice(UNIWS))
            elif c < .82:
                parts.append(r.choice(WS))
            elif c < .93:
                parts.append(r.choice(ESC))
            elif self.cfg.brackets_in_text:
                parts.append('[' if ctx['opt'] else r.choice(['[', ']', '(', ')']))
        return ('T', ''.join(parts))

    def comment(self):
        r = self.r
        alpha = ['a', ' ', '{', '}', '$', '\\begin{x}', '\\end{y}', '[', ']',
                 '%', '\\', '\\item', 'note', '$$', '\\[', '\\\\', '\\}', '\\{', '\\%', '\t']
        return ('K', '%' + ''.join(r.choice(alpha) for _ in range(r.randint(0, 5))))

    # ---- sequences --------------------------------------------------------
    def seq(self, d, ctx, n=None):
        cfg = self.cfg
        if n is None:
            n = self.r.randint(0, cfg.size if d < cfg.maxdepth else 2)
        out = []
        for _ in range(n):
            e = self.elem(d, ctx)
            out.append(e)
            if cfg.twins and e[0] != 'T' and self.r.random() < cfg.twins:
                # textual twin as a sibling (optionally separated)
                if self.r.random() < .5:
                    out.append(('T', self.r.choice([' ', '\n', ', '])))
                out.append(e)
        return out

    def elem(self, d, ctx):
        r, cfg = self.r, self.cfg
        w = dict(cfg.weights)
        if d >= cfg.maxdepth:
            return self.textrun(ctx)
        if ctx['math']:
            for k in ('list', 'math', 'mathenv', 'verb', 'newcommand'):
                w[k] = 0
            w['sizing'] = max(w['sizing'], 6)
        if not ctx['verb_ok']:
            w['verb'] = 0
        kinds = [k for k in w if w[k] > 0]
        k = r.choices(kinds, [w[x] for x in kinds])[0]
        inner = dict(ctx, opt=False, verb_ok=False)
        if k == 'text':
            return self.textrun(ctx)
        if k == 'cmd':
            name = r.choice(TRICKY) if cfg.tricky and r.random() < cfg.tricky \
                else r.choice(cfg.cmd)
            if cfg.tricky and r.random() < .08:
                name = r.choice(self.macros)
            return ('C', name, self.args(d, ctx))
        if k == 'env':
            name = r.choice(cfg.env) if not ctx['math'] else r.choice(['cases', 'matrix', 'aligned'])
            return ('E', name, self.args(d, ctx, env=True),
                    self.seq(d + 1, dict(ctx, opt=False)))
        if k == 'group':
            return ('G', self.seq(d + 1, inner))
        if k == 'comment':
            return self.comment()
        if k == 'list':
            body = []
            if r.random() < .5:
                body.append(('T', r.choice(WS)))
            for _ in range(r.randint(1, 3)):
                a = [('o', self.seq(d + 2, dict(inner, opt=True)))] if r.random() < .3 else []
                body.append(('I', a, self.seq(d + 1, inner)))
            return ('E', r.choice(LST), [], body)
        if k == 'math':
            return ('M', r.choice(list(MATH_CLOSE)),
                    self.seq(d + 1, dict(inner, math=True)))
        if k == 'mathenv':
            return ('E', r.choice(MENV), [],
                    self.seq(d + 1, dict(ctx, opt=False, math=True)))
        if k == 'verb':
            alpha = ['a', ' ', '\n', '{', '}', '$', '\\begin{x}', '\\end{y}',
                     '[', ']', '\\foo', '%x\n', '\\', '$$', '\\[', '\\item',
                     '\\end', '\\begin{verbatim}', '\\end{verbatimtab}', '\\end{lstlistingx}',
                     '\\end{verbati}', '\\end{Verbatim*}']
            body = ''.join(r.choice(alpha) for _ in range(r.randint(0, 6)))
            return ('V', r.choice(VENV), body)
        if k == 'newcommand':
            nm = r.choice(SPECIAL)
            body = r.choice([
                [('C', 'begin', [('r', [('T', 'equation')])])],
                [('C', 'end', [('r', [('T', 'equation')])])],
                [('T', '#1 x')],
                [('C', 'begin', [('r', [('T', 'itemize')])]), ('T', ' '),
                 ('C', 'foo', [])],
                [('C', 'end', [('r', [('T', 'itemize')])]), ('T', '.')],
                'items', 'items',
            ])
            if body == 'items' and not cfg.weights.get('list'):
                # a configuration without list regions has none in definitions either
                body = [('T', '#1 y')]
            if body == 'items':
                # a list written out inside a definition: `\begin`/`\end` are
                # plain commands there, but every `\item` still owns what
                # follows it up to the next `\item`, the `\end` or the brace
                lst = r.choice(LST)
                body = []
                bare = r.random() < .3
                if not bare:
                    body.append(('C', 'begin', [('r', [('T', lst)])]))
                    if r.random() < .4:
                        body.append(('T', r.choice(WS)))
                for _ in range(r.randint(1, 3)):
                    a = [('o', [('T', r.choice(['a', 'k', '1.']))])] if r.random() < .3 else []
                    body.append(('I', a, self.seq(d + 2, inner)))
                if not bare:
                    body.append(('C', 'end', [('r', [('T', lst)])]))
            defined = r.choice(['beq', 'eeq', 'mycmd'] + self.macros * 2)
            if defined in self.macros and r.random() < .3:
                # the macro applied to a group inside its own definition
                body = [('C', defined, [('r', [('T', 'once more')])])] + body
            args = [('r', [('C', defined, [])])]
            if r.random() < .5:
                args.append(('o', [('T', r.choice('123'))]))
            args.append(('r', body))
            return ('C', nm, args)
        if k == 'sig':
            c = r.random()
            if c < .35:
                return ('C', r.choice(ZERO_ARG), [])
            if c < .7:
                return ('C', r.choice(ONE_ARG),
                        [('r', self.seq(d + 2, inner))])
            if c < .85:
                a = [('o', self.seq(d + 2, dict(inner, opt=True)))] if r.random() < .5 else []
                return ('C', 'section', a + [('r', self.seq(d + 2, inner))])
            return ('C', 'def', [('c', r.choice(['x', 'itemeqn', 'R'])),
                                 ('r', self.seq(d + 2, inner))])
        if k == 'sizing':
            return ('C', r.choice(SIZING) + r.choice(DELIMS), [])
        raise ValueError(k)

    def args(self, d, ctx, env=False):
        r = self.r
        a = []
        inner = dict(ctx, opt=False, verb_ok=False)
        for _ in range(r.choice([0, 0, 0, 1, 2, 3] if not env else [0, 0, 1, 2])):
            a.append(('o', self.seq(d + 2, dict(inner, opt=True))))
        for _ in range(r.choice([0, 1, 1, 2, 3] if not env else [0, 0, 1, 2])):
            a.append(('r', self.seq(d + 2, inner)))
            # two textually equal arguments in a row (`\frac{\x}{\x}`)
            if self.cfg.twins and a[-1][1] and r.random() < self.cfg.twins:
                a.append(a[-1])
        if not env and r.random() < .015:
            # a long run of brace groups (no limit on the number of arguments)
            for j in range(r.randint(7, 12)):
                a.append(('r', [('T', 'g%d' % j)] if j % 3 else []))
        return a

    def cross_twins(self, nodes):
        """textual twins across the content lists of one parent: copy an
        element of an earlier list (argument) into a later list (another
        argument or the body) of the same command / environment / item"""
        r = self.r
        out = []
        for n in nodes:
            t = n[0]
            if t in ('C', 'E', 'I'):
                args = n[2] if t != 'I' else n[1]
                args = [(k, self.cross_twins(b) if k != 'c' else b) for k, b in args]
                body = self.cross_twins(n[3] if t == 'E' else n[2]) if t != 'C' else None
                lists = [b for k, b in args if k != 'c'] + ([body] if body is not None else [])
                donors = [(i, e) for i, l in enumerate(lists[:-1]) for e in l if e[0] not in 'TK']
                if donors and r.random() < self.cfg.twins:
                    i, e = r.choice(donors)
                    j = r.randint(i + 1, len(lists) - 1)
                    if not (t == 'E' and n[1] in LST and lists[j] is body):
                        lists[j].insert(r.randint(0, len(lists[j])), e)
                if t == 'C':
                    n = ('C', n[1], args)
                elif t == 'I':
                    n = ('I', args, body)
                else:
                    n = ('E', n[1], args, body)
            elif t == 'G':
                n = ('G', self.cross_twins(n[1]))
            elif t == 'M':
                n = ('M', n[1], self.cross_twins(n[2]))
            out.append(n)
        return out

    def document(self):
        n = self.r.randint(1, self.cfg.size + 2)
        nodes = self.seq(0, dict(TOP), n=n)
        if self.cfg.twins:
            nodes = self.cross_twins(nodes)
        return normalise(nodes)


# ---------------------------------------------------------------- render ---

def render(nodes):
    return ''.join(render1(n) for n in nodes)


def render_args(a):
    out = []
    for k, b in a:
        if k == 'o':
            out.append('[%s]' % render(b))
        elif k == 'r':
            out.append('{%s}' % render(b))
        else:
            out.append('\\' + b)
    return ''.join(out)


def render1(n):
    t = n[0]
    if t in 'TK':
        return n[1]
    if t == 'C':
        return '\\' + n[1] + render_args(n[2])
    if t == 'I':
        return '\\item' + render_args(n[1]) + render(n[2])
    if t == 'E':
        return '\\begin{%s}' % n[1] + render_args(n[2]) + render(n[3]) + \
            '\\end{%s}' % n[1]
    if t == 'G':
        return '{' + render(n[1]) + '}'
    if t == 'M':
        return n[1] + render(n[2]) + MATH_CLOSE[n[1]]
    if t == 'V':
        return '\\begin{%s}%s\\end{%s}' % (n[1], n[2], n[1])
    raise ValueError(n)


# ------------------------------------------------------------- normalise ---

_BR = re.compile(r'[ \t]*[\n\r]?[ \t]*[\[{]')   # CR is a line end of its own
_NL = re.compile(r'[A-Za-z*]')
NOHANG = set(ZERO_ARG) | set(ONE_ARG) | {'def'}


def is_sizing(name):
    return any(name.startswith(p) and name[len(p):] in DELIMS for p in SIZING)


def hangs(n):
    """a following bracket/brace group would attach to this node"""
    if n[0] == 'C':
        return n[1] not in NOHANG
    return False


def ends_in_name(n):
    """the node's text ends with a command name that a following letter or
    star would extend"""
    if n[0] == 'C':
        if is_sizing(n[1]):
            return False
        if not n[2]:
            return True
        return n[2][-1][0] == 'c'
    return False


def fix_verbatim(name, body):
    """C-verb side conditions of C11's statement"""
    end = '\\end{%s}' % name
    while end in body:
        body = body.replace(end, '\\end {%s}' % name)
    if re.match(r'[ \t]*\n?[ \t]*[\[{]', body):
        body = 'v' + body
    m = re.search(r'\\+$', body)
    if m and len(m.group()) % 2 == 1:
        body += ' '
    last = body.rsplit('\n', 1)[-1]
    if '%' in last:
        body += '\n'
    return body.replace('\x00', '').replace('\x7f', '').replace('\r', '\n')


def normalise(nodes, closing='', eof_ok=True):
    """Return the canonical form of a sibling sequence followed by `closing`
    (the source text that follows the sequence: '}', ']', '\\\\end', ...)."""
    pre = []
    for n in nodes:
        t = n[0]
        if t == 'C':
            n = ('C', n[1], norm_args(n[2]))
        elif t == 'I':
            body = normalise(n[2], '\\')
            a = norm_args(n[1])
            tail = render(body) + '\\'
            if _BR.match(tail) or (not a and _NL.match(tail)):
                body = normalise([('T', '.' if _BR.match(tail) else ' ')] + body, '\\')
            n = ('I', a, body)
        elif t == 'E':
            body = normalise(n[3], '\\')
            if _BR.match(render(body) + '\\'):
                body = normalise([('T', '.')] + body, '\\')
            n = ('E', n[1], norm_args(n[2]), body)
        elif t == 'G':
            n = ('G', normalise(n[1], '}'))
        elif t == 'M':
            body = normalise(n[2], MATH_CLOSE[n[1]])
            if n[1] == '$' and render(body) == '':
                body = [('T', 'x')]
            n = ('M', n[1], body)
        elif t == 'V':
            n = ('V', n[1], fix_verbatim(n[1], n[2]))
        elif t == 'T' and n[1] == '':
            continue
        pre.append(n)
    # right-to-left: the text that follows each node is known
    res = []
    tail = closing
    for n in reversed(pre):
        guard = None
        t = n[0]
        if t == 'K':
            if not tail.startswith('\n') and not (tail == '' and closing == '' and eof_ok):
                guard = '\n'
        elif t == 'C':
            if hangs(n) and _BR.match(tail):
                guard = ['.', ',', '\n\n', '!'][len(tail) % 4]
            elif ends_in_name(n) and _NL.match(tail):
                guard = [' ', '.', '\n', '-'][len(tail) % 4]
        elif t == 'M':
            if n[1] == '$' and tail.startswith('$'):
                guard = [' ', '.'][len(tail) % 2]
        if guard is not None:
            res.append(('T', guard))
            tail = guard + tail
        res.append(n)
        tail = render1(n) + tail
    res.reverse()
    out = []
    for n in res:
        if n[0] == 'T' and out and out[-1][0] == 'T':
            out[-1] = ('T', out[-1][1] + n[1])
        else:
            out.append(n)
    return out


def norm_args(a):
    out = []
    for k, b in a:
        if k == 'o':
            out.append(('o', strip_close_bracket(normalise(b, ']'))))
        elif k == 'r':
            out.append(('r', normalise(b, '}')))
        else:
            out.append((k, b))
    return out


def strip_close_bracket(body):
    """C-opt: no bare ']' at the direct level of a bracket argument"""
    out = []
    for n in body:
        if n[0] == 'T' and ']' in n[1]:
            n = ('T', n[1].replace(']', ')'))
        if n[0] == 'K' and False:
            pass
        out.append(n)
    return out


# --------------------------------------------------------------- helpers ---

def tolist(x):
    if isinstance(x, tuple):
        return [tolist(y) for y in x]
    if isinstance(x, list):
        return [tolist(y) for y in x]
    return x


def totuple(x):
    """inverse of tolist for AST payloads read back from JSON"""
    if isinstance(x, list):
        if x and isinstance(x[0], str) and x[0] in ('T', 'K', 'C', 'I', 'E', 'G', 'M', 'V', 'o', 'r', 'c'):
            return tuple(totuple(y) for y in x)
        return [totuple(y) for y in x]
    return x


def walk(nodes, path=()):
    """yield (path, node) for every node, depth-first in document order"""
    for i, n in enumerate(nodes):
        p = path + (i,)
        yield p, n
        t = n[0]
        if t == 'C':
            for j, (k, b) in enumerate(n[2]):
                if k != 'c':
                    yield from walk(b, p + ('a%d' % j,))
        elif t == 'I':
            for j, (k, b) in enumerate(n[1]):
                yield from walk(b, p + ('a%d' % j,))
            yield from walk(n[2], p + ('b',))
        elif t == 'E':
            for j, (k, b) in enumerate(n[2]):
                yield from walk(b, p + ('a%d' % j,))
            yield from walk(n[3], p + ('b',))
        elif t == 'G':
            yield from walk(n[1], p + ('b',))
        elif t == 'M':
            yield from walk(n[2], p + ('b',))


def kinds(nodes):
    """construct kinds present, for coverage accounting"""
    out = set()
    for _, n in walk(nodes):
        t = n[0]
        if t == 'E':
            if n[1] in LST:
                out.add('list')
            elif n[1] in MENV:
                out.add('mathenv')
            else:
                out.add('env')
        elif t == 'C':
            if n[1] in SPECIAL:
                out.add('newcommand')
            elif n[1] in NOHANG or n[1] == 'section':
                out.add('sig')
            elif is_sizing(n[1]):
                out.add('sizing')
            else:
                out.add('cmd')
        else:
            out.add({'T': 'text', 'K': 'comment', 'I': 'item', 'G': 'group',
                     'M': 'math' + n[1] if t == 'M' else '', 'V': 'verb'}[t])
    return out


def kind_of(n):
    t = n[0]
    if t == 'E':
        return 'list' if n[1] in LST else 'mathenv' if n[1] in MENV else 'env'
    if t == 'M':
        return 'math' + n[1]
    return {'T': 'text', 'K': 'comment', 'C': 'cmd', 'I': 'item', 'G': 'group',
            'V': 'verb'}[t]


def adjacency(nodes, ctx, parent='root'):
    """record (parent kind, child kind) and (left sibling, right sibling)"""
    prev = None
    for n in nodes:
        k = kind_of(n)
        ctx.seen('parent_child', (parent, k))
        if prev is not None:
            ctx.seen('sibling_pair', (prev, k))
        prev = k
        t = n[0]
        if t == 'C':
            for kk, b in n[2]:
                if kk != 'c':
                    adjacency(b, ctx, 'arg' + kk)
        elif t == 'I':
            for kk, b in n[1]:
                adjacency(b, ctx, 'arg' + kk)
            adjacency(n[2], ctx, 'item')
        elif t == 'E':
            for kk, b in n[2]:
                adjacency(b, ctx, 'arg' + kk)
            adjacency(n[3], ctx, k)
        elif t == 'G':
            adjacency(n[1], ctx, 'group')
        elif t == 'M':
            adjacency(n[2], ctx, k)


def gen_doc(rng, cfg=None):
    g = DocGen(rng, cfg)
    ast = g.document()
    return render(ast), ast


def depth(nodes):
    d = 0
    for p, _ in walk(nodes):
        d = max(d, sum(1 for x in p if isinstance(x, int)))
    return d


# ---------------------------------------------------------------- shrink ---

def variants(nodes):
    """yield structurally smaller sibling sequences"""
    n = len(nodes)
    for size in (n // 2, 1):
        if size < 1:
            continue
        for i in range(0, n, size):
            v = nodes[:i] + nodes[i + size:]
            if len(v) < n:
                yield v
    for i, x in enumerate(nodes):
        t = x[0]
        pre, post = nodes[:i], nodes[i + 1:]
        if t == 'T' and len(x[1]) > 1:
            # cut between atoms so that an escaped symbol is never split
            at = re.findall(r'\\.|.', x[1], re.S)
            h = len(at) // 2
            for cut in (at[:h], at[h:], at[1:], at[:-1]):
                if cut and len(cut) < len(at):
                    yield pre + [('T', ''.join(cut))] + post
        elif t == 'K' and len(x[1]) > 1:
            yield pre + [('K', x[1][:-1])] + post
            yield pre + [('K', '%' + x[1][2:])] + post
        elif t == 'V' and x[2]:
            yield pre + [('V', x[1], x[2][1:])] + post
            yield pre + [('V', x[1], x[2][:-1])] + post
        elif t == 'C':
            for j, (k, b) in enumerate(x[2]):
                if k == 'c':
                    continue
                yield pre + list(b) + post
                yield pre + [('C', x[1], x[2][:j] + x[2][j + 1:])] + post
                for vb in variants(list(b)):
                    yield pre + [('C', x[1], x[2][:j] + [(k, vb)] + x[2][j + 1:])] + post
        elif t == 'I':
            for j, (k, b) in enumerate(x[1]):
                yield pre + [('I', x[1][:j] + x[1][j + 1:], x[2])] + post
                for vb in variants(list(b)):
                    yield pre + [('I', x[1][:j] + [(k, vb)] + x[1][j + 1:], x[2])] + post
            for vb in variants(list(x[2])):
                yield pre + [('I', x[1], vb)] + post
        elif t == 'E':
            if not any(c[0] == 'I' for c in x[3]):
                yield pre + list(x[3]) + post
            for j, (k, b) in enumerate(x[2]):
                yield pre + [('E', x[1], x[2][:j] + x[2][j + 1:], x[3])] + post
                for vb in variants(list(b)):
                    yield pre + [('E', x[1], x[2][:j] + [(k, vb)] + x[2][j + 1:], x[3])] + post
            for vb in variants(list(x[3])):
                if x[1] in LST and not any(c[0] == 'I' for c in vb):
                    continue
                yield pre + [('E', x[1], x[2], vb)] + post
        elif t == 'G':
            yield pre + list(x[1]) + post
            for vb in variants(list(x[1])):
                yield pre + [('G', vb)] + post
        elif t == 'M':
            yield pre + list(x[2]) + post
            for vb in variants(list(x[2])):
                yield pre + [('M', x[1], vb)] + post


def shrink(ast, pred, budget=400):
    """Greedy AST-level shrinking; pred(src, ast) -> still failing.  Shrunk
    witnesses stay inside the well-formed domain (re-normalised)."""
    ast = normalise(ast)
    cur = render(ast)
    improved = True
    while improved and budget > 0:
        improved = False
        for v in variants(ast):
            budget -= 1
            if budget <= 0:
                break
            try:
                v = normalise(v)
            except Exception:
                continue
            sv = render(v)
            if len(sv) < len(cur) and pred(sv, v):
                ast, cur, improved = v, sv, True
                break
    return cur, ast


# ------------------------------------------------- extended rendering -----

class Renderer:
    """Render with (a) optional attaching whitespace between a command and
    those of its argument groups where whitespace attaches, and between
    \\begin / \\end and the name braces; (b) a record of every closer
    (offset, text, kind) for the single-closer-deletion faults of C07."""

    def __init__(self, sep=None, pad=None):
        self.sep = sep            # callable() -> whitespace string, or None
        self.pad = pad            # callable() -> (left, right) blanks inside \begin{..}
        self.out = []
        self.n = 0
        self.closers = []         # (offset, text, kind)

    def w(self, s):
        self.out.append(s)
        self.n += len(s)

    def ws(self):
        if self.sep:
            self.w(self.sep())

    def args(self, a, first_round=True):
        """whitespace attaches before o-groups of the leading o* run and
        before r-groups of the o* r* run; nowhere after that"""
        stage = 0                  # 0 = in o*, 1 = in r*, 2 = second round
        for k, b in a:
            if k == 'c':
                self.w('\\' + b)
                stage = max(stage, 1)
                continue
            if first_round:
                if k == 'o' and stage == 0:
                    self.ws()
                elif k == 'r' and stage <= 1:
                    stage = 1
                    self.ws()
                else:
                    stage = 2
            op, cl = ('[', ']') if k == 'o' else ('{', '}')
            self.w(op)
            self.seq(b)
            self.closers.append((self.n, cl, 'arg' + k))
            self.w(cl)

    def seq(self, nodes):
        for n in nodes:
            self.node(n)

    def node(self, n):
        t = n[0]
        if t in 'TK':
            self.w(n[1])
        elif t == 'C':
            self.w('\\' + n[1])
            self.args(n[2], first_round=n[1] not in NOHANG and n[1] != 'section')
        elif t == 'I':
            self.w('\\item')
            self.args(n[1])
            self.seq(n[2])
        elif t == 'E':
            self.w('\\begin')
            self.ws()
            l, r_ = self.pad() if self.pad else ('', '')
            self.w('{%s%s%s}' % (l, n[1], r_))
            self.args(n[2], first_round=False)
            self.seq(n[3])
            self.closers.append((self.n, '\\end{%s}' % n[1], 'end'))
            self.w('\\end')
            self.ws()
            self.w('{%s}' % n[1])
        elif t == 'G':
            self.w('{')
            self.seq(n[1])
            self.closers.append((self.n, '}', 'group'))
            self.w('}')
        elif t == 'M':
            self.w(n[1])
            self.seq(n[2])
            self.w(MATH_CLOSE[n[1]])
        elif t == 'V':
            self.w('\\begin')
            self.ws()
            l, r_ = self.pad() if self.pad else ('', '')
            self.w('{%s%s%s}%s\\end{%s}' % (l, n[1], r_, n[2], n[1]))
        else:
            raise ValueError(n)

    def text(self):
        return ''.join(self.out)


def render_spaced(ast, rng, seps=None):
    seps = seps or ['', ' ', '  ', '\t', '\n', ' \n', '\n ', ' \n\t', '\r\n', ' \r\n', '\r']
    r = Renderer(lambda: rng.choice(seps))
    r.seq(ast)
    return r.text()


def render_padded_names(ast, rng):
    """environment names written with blanks inside the braces of \\begin
    (TexSoup strips them: accepted spelling, see known finding
    env-name-stripped)"""
    pads = [('', ' '), (' ', ''), ('', ''), (' ', ' '), ('', '\t')]
    r = Renderer(pad=lambda: rng.choice(pads))
    r.seq(ast)
    return r.text()


def render_with_closers(ast):
    r = Renderer()
    r.seq(ast)
    return r.text(), r.closers
