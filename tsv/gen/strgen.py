"""W2 - arbitrary strings.

(a) CHARS: one representative per character category of the categoriser
    (plus CR, a second letter and a non-ASCII character);
(b) TOKENS: one representative per token kind and per parser-relevant word
    (`\\begin`, `{verbatim}`, `\\item`, `$$`, `\\left`, complete small constructs,
    whitespace kinds, comment starter, NUL ...).

Strings are enumerated exhaustively up to a length bound and drawn at random
beyond it.  Everything is a pure function of (alphabet, index) or of the
seeded RNG.
"""
import itertools
import re

CHARS = ['\\', '{', '}', '$', '&', '\n', '\r', '#', '^', '_', '\x00', ' ',
         '\t', 'a', '1', '~', '%', '\x7f', '[', ']', '(', ')', 'é', '*', '|']

TOKENS = [
    '\\begin', '\\end', '{a}', '{b}', '{verbatim}', '{itemize}', '{equation}',
    '\\item', '\\[', '\\]', '\\(', '\\)', '$', '$$', '\\left', '\\right',
    '\\big', '(', ')', '[', ']', '{', '}', '\\\\', '\\%', '\\$', '\\{', '\\}',
    '%', '%c\n', ' ', '\n', '\n\n', '\t', 'a', 'x', '1', '.', '|', '*',
    '\\foo', '\\x', '\\newcommand', '\\textbf{a}', '\\def\\x{a}',
    '\\section[b]{a}', '\\label{a}', '\\cup', '\\noindent',
    '\\begin{itemize}', '\\end{itemize}', '\\begin{a}', '\\end{a}',
    '\\begin{verbatim}', '\\end{verbatim}', '\\begin{equation}',
    '\\end{equation}', '\\', 'é', '&', '#', '~', '{a }', '[a]',
    '{verbatim }', '{ equation}', '\\endnote', '\\itemsep', '\r\n', ' \r\n',
    '\x0b', '\xa0', '\u2028',   # blank for str.isspace(), Other for the parser
    '^^@', '^^?', '^^M', '@', '?',
]
# tokens that leave the C08/C16 input domain (NUL/DEL, bare signature cmds)
HOSTILE_TOKENS = ['\x00', '\x7f', '\\def', '\\textbf', '\\section', '\\label',
                  '\r']


def enum_strings(alphabet, minlen, maxlen, start_k=0):
    """yield (k, string) for all strings with minlen <= length <= maxlen."""
    k = start_k
    for n in range(minlen, maxlen + 1):
        for tup in itertools.product(alphabet, repeat=n):
            k += 1
            yield k, tup


def count_strings(alphabet, minlen, maxlen):
    return sum(len(alphabet) ** n for n in range(minlen, maxlen + 1))


def random_string(rng, alphabet, minlen, maxlen):
    n = rng.randint(minlen, maxlen)
    return ''.join(rng.choice(alphabet) for _ in range(n))


# --- side conditions of C08 / C16 (DESIGN 3.2) -----------------------------
_SIG_OK = re.compile(
    r'\\(?:def(?![A-Za-z*])\\(?!(?:left|right|big|Big|bigg|Bigg)\{)[A-Za-z]+\{|textbf(?![A-Za-z*])\{|'
    r'section(?![A-Za-z*])(?:\[[^\]\[{}]*\])?\{|label(?![A-Za-z*])\{)')
_SIG_ANY = re.compile(r'\\(?:def|textbf|section|label)(?![A-Za-z*])')
_ESC_RUN = re.compile(r'\\+')


def _unescaped_command_starts(s):
    """offsets of backslashes that start a command (odd position in a run of
    backslashes is an escaped backslash)."""
    out = []
    for m in _ESC_RUN.finditer(s):
        if len(m.group()) % 2 == 1:
            out.append(m.end() - 1)
    return out


def side_conditions_ok(s, sizing=False):
    """True iff s is inside the input domain of C08 (and of C16 if sizing)."""
    if '\x00' in s or '\x7f' in s:
        return False
    starts = set(_unescaped_command_starts(s))
    for m in _SIG_ANY.finditer(s):
        if m.start() in starts and not _SIG_OK.match(s, m.start()):
            return False
    if sizing:
        for m in re.finditer(r'\\(?:left|right|big|Big|bigg|Bigg)(?![A-Za-z*])', s):
            if m.start() in starts:
                rest = s[m.end():]
                if not re.match(r'(?:[()<>\[\]{}.|]|\\[{}]|\\(?:langle|rangle|'
                                r'lfloor|rfloor|lceil|rceil|ulcorner|urcorner|'
                                r'lbrack|rbrack)(?![A-Za-z*]))', rest):
                    return False
    return True
