"""W3 - faults applied to well-formed documents, and nesting towers."""
from tsv.gen import strgen

INSERT_CHARS = ['\\', '{', '}', '$', '[', ']', '%', '\n', ' ', 'a', '\x00', '&',
                '(', ')', '*', '~']


def faults(src, rng, ins_per_pos=2, max_len=400):
    """every prefix, every single-character deletion, `ins_per_pos` insertions
    at every position, every adjacent transposition of `src`"""
    n = min(len(src), max_len)
    for i in range(n):
        yield 'prefix', src[:i]
    for i in range(n):
        yield 'delete', src[:i] + src[i + 1:]
    for i in range(n + 1):
        for c in rng.sample(INSERT_CHARS, ins_per_pos):
            yield 'insert', src[:i] + c + src[i:]
    for i in range(n - 1):
        if src[i] != src[i + 1]:
            yield 'transpose', src[:i] + src[i + 1] + src[i] + src[i + 2:]


# name -> (opening unit, innermost text, closing unit); nesting d levels is
# open*d + core + close*d.  `mixed` ones alternate two container kinds.
TOWERS = {
    'group': ('{', 'x', '}'),
    'env': ('\\begin{a}', 'x', '\\end{a}'),
    'brace-arg': ('\\f{', 'x', '}'),
    'bracket-arg': ('\\f[', 'x', ']'),
    'math-in-arg': ('$\\f{', 'x', '}$'),
    'list': ('\\begin{itemize}\\item ', 'x', '\\end{itemize}'),
    'display-in-group': ('{\\[', 'x', '\\]}'),
    'env/group': ('\\begin{a}{', 'x', '}\\end{a}'),
    'item-brace': ('\\begin{itemize}\\item{', 'x', '}\\end{itemize}'),
    'mathenv/arg': ('\\begin{equation}\\f{', 'x', '}\\end{equation}'),
    'env/arg': ('\\begin{a}\\f{', 'x', '}\\end{a}'),
    'env/optarg': ('\\begin{a}\\f[', 'x', ']\\end{a}'),
    'end-then-group': ('\\begin{a}\\end{a}{', 'x', '}'),
    # an environment whose \end carries a *different*, nested argument
    'begin-end-arg': ('\\begin{a}\\end{', 'a', '}'),
}
# towers whose cost is known to double per level on the unfixed parser (D18)
ALTERNATING = ('env/arg', 'env/optarg', 'end-then-group', 'mathenv/arg',
               'item-brace', 'begin-end-arg')

# growth oracle (C06): towers unit*d + core + closer*d built from these
# fragments are parsed at two depths; reader calls must not grow
# super-polynomially with the depth
GROWTH_OPEN = ['\\begin{a}', '\\end{', '\\f{', '\\f[', '{', '\\item ', '\\begin{itemize}',
               '$', '\\[', '\\begin{', '\\section{', '\\def\\x{', '\\textbf', '\\end{a}', '[']
GROWTH_CLOSE = ['}', ']', '\\end{a}', '\\end{itemize}', '$', '\\]', '']


def tower(name, depth):
    o, core, c = TOWERS[name]
    return o * depth + core + c * depth


def tower_truncations(name, depth):
    """the closed tower and its truncation after every unit"""
    o, core, c = TOWERS[name]
    units = [o] * depth + [core] + [c] * depth
    for k in range(len(units) + 1):
        yield ''.join(units[:k])
