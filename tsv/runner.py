"""Parent process of a check: shards the workload over worker processes,
merges what they observed, attributes failures to known findings, writes the
evidence file and prints the verdict lines.

Exit codes: 0 held (possibly with KNOWN-FINDING lines), 1 violated
(VIOLATION property=<id> replay=<path>), 2 inconclusive.
"""
import array
import hashlib
import heapq
import json
import os
import shutil
import subprocess
import sys
import tempfile
import time

from tsv import env, findings

NCPU = min(16, os.cpu_count() or 4)


def _budget(prop, tier):
    b = getattr(prop, 'budget_s', None)
    if isinstance(b, dict):
        return b.get(tier, 600)
    return 240 if tier == 'quick' else 3600


def run(pid, tier, seed, replay=None):
    t_start = time.time()
    env.ensure_deps()
    env.setup_path()
    env.assert_repo()
    from tsv.worker import load_prop
    prop = load_prop(pid)
    if replay:
        return do_replay(prop, replay)
    scratch = tempfile.mkdtemp(prefix='tsv-%s-' % pid)
    try:
        return _run(prop, tier, seed, scratch, t_start)
    finally:
        shutil.rmtree(scratch, ignore_errors=True)


def worker_env(hashseed='0'):
    e = dict(os.environ)
    e['PYTHONHASHSEED'] = hashseed
    e['PYTHONDONTWRITEBYTECODE'] = '1'
    e[env.GUARD] = '1'
    e['PYTHONPATH'] = env.VERIF
    return e


def _run(prop, tier, seed, scratch, t_start):
    pid = prop.id
    budget = _budget(prop, tier)
    prop.pre_run(tier, seed, scratch)
    n_probed = 0
    if prop.probed_every and prop.probes:
        n_probed = max(2, NCPU // 4)
    n_plain = NCPU - n_probed if n_probed else NCPU
    n_plain = min(n_plain, getattr(prop, 'max_workers', NCPU))
    procs = []
    for probed, n in ((0, n_plain), (1, n_probed)):
        for shard in range(n):
            out = os.path.join(scratch, 'w-%d-%d.json' % (probed, shard))
            cmd = [env.PYTHON, '-B', '-m', 'tsv.worker', pid, tier, str(seed),
                   str(shard), str(n), str(probed), out, str(budget)]
            log = open(out + '.log', 'w')
            p = subprocess.Popen(cmd, cwd=env.VERIF, env=worker_env(),
                                 stdout=log, stderr=subprocess.STDOUT)
            procs.append((p, out, probed, shard, log))
    deadline = time.time() + budget * 1.5 + 120
    results, dead = [], []
    for p, out, probed, shard, log in procs:
        try:
            p.wait(timeout=max(1, deadline - time.time()))
        except subprocess.TimeoutExpired:
            p.kill()
            p.wait()
        log.close()
        if p.returncode == 0 and os.path.exists(out):
            results.append((json.load(open(out)), out))
        else:
            last = None
            try:
                last = open(out + '.progress').read()
            except OSError:
                pass
            tail = open(out + '.log').read()[-1500:]
            dead.append({'shard': shard, 'probed': probed, 'rc': p.returncode,
                         'last_case': last, 'log_tail': tail})
    merged = merge(results)
    extra = prop.post_run(tier, seed, merged, scratch) or []
    return conclude(prop, tier, seed, merged, dead, extra, t_start)


def merge(results):
    m = {'evaluations': 0, 'evaluations_probed': 0, 'failures': [],
         'n_failures': 0, 'harness_errors': [], 'timeouts': 0, 'samples': [],
         'counters': {}, 'sets': {}, 'truncated': 0, 'known_hits': {},
         'unclassified_extra': 0, 'worker_wall_s': []}
    digest_files = []
    for r, out in results:
        key = 'evaluations_probed' if r['probed'] else 'evaluations'
        m[key] += r['evaluations']
        for f in r['failures']:
            f['probed'] = r['probed']
            m['failures'].append(f)
        m['n_failures'] += r['n_failures']
        m['harness_errors'] += r['harness_errors']
        m['timeouts'] += r['timeouts']
        m['samples'] += r['samples']
        m['truncated'] += 1 if r['truncated'] else 0
        m['unclassified_extra'] += r.get('unclassified_extra', 0)
        m['worker_wall_s'].append(round(r['wall_s'], 1))
        for k, v in r['known_hits'].items():
            m['known_hits'][k] = m['known_hits'].get(k, 0) + v
        for k, v in r['counters'].items():
            if k.startswith('max:'):
                m['counters'][k] = max(m['counters'].get(k, 0), v)
            else:
                m['counters'][k] = m['counters'].get(k, 0) + v
        for g, vals in r['sets'].items():
            s = m['sets'].setdefault(g, set())
            for v in vals:
                s.add(tuple(v) if isinstance(v, list) else v)
        if not r['probed']:
            digest_files.append(out + '.digests')
    m['distinct_nontrivial'] = count_distinct(digest_files)
    return m


def count_distinct(files):
    arrays = []
    for f in files:
        a = array.array('Q')
        try:
            with open(f, 'rb') as fh:
                a.frombytes(fh.read())
        except OSError:
            continue
        arrays.append(a)
    n, last = 0, None
    for v in heapq.merge(*arrays):
        if v != last:
            n += 1
            last = v
    return n


def write_replay(prop, tier, seed, rec):
    d = os.path.join(env.OUT, 'replays', prop.id)
    os.makedirs(d, exist_ok=True)
    body = {'property': prop.id, 'tier': tier, 'seed': seed,
            'case_index': rec.get('k'), 'payload': rec['payload'],
            'failures': rec['failures'], 'probed': bool(rec.get('probed')),
            'original_payload': rec.get('original'),
            'PYTHONHASHSEED': '0', 'repo': env.repo_state(),
            'how': 'bin/check %s --replay <this file>' % prop.id}
    h = hashlib.blake2b(json.dumps(rec['payload'], sort_keys=True).encode(),
                        digest_size=6).hexdigest()
    path = os.path.join(d, '%s.json' % h)
    with open(path, 'w') as fh:
        json.dump(body, fh, indent=1, ensure_ascii=False)
    return path


def conclude(prop, tier, seed, m, dead, extra, t_start):
    pid = prop.id
    known = findings.known_for(pid)
    violations, known_lines = [], {}
    for rec in m['failures'] + list(extra):
        if rec.get('known') and rec['known'] in known:
            known_lines.setdefault(rec['known'], rec)
        else:
            violations.append(rec)
    for key in m['known_hits']:
        known_lines.setdefault(key, None)
    inconclusive = []
    if dead:
        inconclusive.append('worker(s) died or timed out: %s' % json.dumps(dead)[:600])
    if m['harness_errors']:
        inconclusive.append('checker crashed on %d case(s): %s' % (
            len(m['harness_errors']), m['harness_errors'][0]['trace'][-400:]))
    timeouts_unattributed = m['timeouts'] and not getattr(prop, 'timeouts_are_handled', False)
    # timeouts are reported as failures 'timeout'; for most properties that is
    # not a verdict on its own
    if timeouts_unattributed:
        violations = [v for v in violations
                      if set(f['check'] for f in v['failures']) != {'timeout'}]
        inconclusive.append('%d case(s) hit the per-case alarm' % m['timeouts'])
    if m['distinct_nontrivial'] < prop.min_nontrivial:
        inconclusive.append('only %d distinct non-trivial cases (< %d)' % (
            m['distinct_nontrivial'], prop.min_nontrivial))
    for fn in getattr(prop, 'reach_required', ()):
        if m['evaluations_probed'] and not m['counters'].get('reach:' + fn, 0):
            inconclusive.append('anchored function %s was never executed by the workload' % fn)
    try:
        inconclusive += list(prop.gates(m, tier) or [])
    except Exception as e:  # a gate that cannot be computed is unmet
        inconclusive.append('gate evaluation failed: %r' % e)

    replay_paths = []
    seen = set()
    per_sig = {}
    for rec in sorted(violations, key=lambda r: len(json.dumps(r['payload']))):
        sig = '|'.join(sorted(set(f['check'] for f in rec['failures'])))
        if per_sig.get(sig, 0) >= 2:
            continue
        path = write_replay(prop, tier, seed, rec)
        if path in seen:
            continue
        seen.add(path)
        per_sig[sig] = per_sig.get(sig, 0) + 1
        replay_paths.append((path, rec))
    write_evidence(prop, tier, seed, m, len(violations), known_lines,
                   inconclusive, time.time() - t_start)
    for key, rec in sorted(known_lines.items()):
        print('KNOWN-FINDING: property=%s %s :: %s' % (pid, key, known[key]))
    if violations:
        for path, rec in replay_paths[:10]:
            f0 = rec['failures'][0]
            print('VIOLATION property=%s replay=%s' % (pid, path))
            print('  check=%s detail=%s' % (f0['check'], str(f0['detail'])[:300]))
        n_unknown = len(violations) + m['unclassified_extra']
        print('%s: VIOLATED (%d unexplained failing case(s) of %d)' % (
            pid, n_unknown, m['evaluations'] + m['evaluations_probed']))
        return 1
    if inconclusive:
        for r in inconclusive:
            print('INCONCLUSIVE property=%s reason=%s' % (pid, r))
        return 2
    print('%s: held on %d executions (%d distinct non-trivial; %d under '
          'in-situ probes) in %.1fs' % (
              pid, m['evaluations'], m['distinct_nontrivial'],
              m['evaluations_probed'], time.time() - t_start))
    return 0


def write_evidence(prop, tier, seed, m, n_viol, known_lines, inconclusive,
                   wall):
    samples = []
    seen = set()
    for s in m['samples']:
        key = json.dumps(s, sort_keys=True, default=str)
        if key not in seen:
            seen.add(key)
            samples.append(s)
    samples = samples[:24]
    cov = {
        'evaluations': m['evaluations'] + m['evaluations_probed'],
        'evaluations_plain_pass': m['evaluations'],
        'evaluations_probed_pass': m['evaluations_probed'],
        'distinct_nontrivial': m['distinct_nontrivial'],
        'rule': prop.rule,
        'samples': samples,
        'observed_counters': dict(sorted(m['counters'].items())),
        'observed_distinct': {g: len(v) for g, v in sorted(m['sets'].items())},
        'observed_values': {g: sorted(map(str, v))[:60]
                            for g, v in sorted(m['sets'].items())
                            if len(v) <= 400},
        'known_finding_hits': m['known_hits'],
        'known_findings_reported': sorted(known_lines),
        'inconclusive_reasons': inconclusive,
        'timeouts': m['timeouts'],
        'workers_truncated_by_budget': m['truncated'],
        'worker_wall_s': m['worker_wall_s'],
        'repo': env.repo_state(),
    }
    reach = {k[6:]: v for k, v in m['counters'].items() if k.startswith('reach:')}
    if reach:
        cov['reach_functions_executed'] = len(reach)
        cov['reach_calls'] = dict(sorted(reach.items(), key=lambda kv: -kv[1])[:40])
        cov['reach_lines_executed'] = {g[6:]: len(v) for g, v in m['sets'].items()
                                       if g.startswith('lines:')}
        cov['observed_counters'] = {k: v for k, v in cov['observed_counters'].items()
                                    if not k.startswith('reach:')}
        cov['observed_values'] = {g: v for g, v in cov['observed_values'].items()
                                  if not g.startswith('lines:')}
    ex = prop.exhaustive.get(tier) if isinstance(prop.exhaustive, dict) else None
    if ex and m['truncated']:
        # an enumeration cut short by the time budget is not exhaustive
        cov['exhaustive'] = False
        cov['exhaustive_planned'] = ex
        cov['exhaustive_note'] = ('%d worker(s) were stopped by the time budget before '
                                  'their share of the enumeration was complete' % m['truncated'])
    elif ex:
        cov['exhaustive'] = True
        cov['exhaustive_over'] = ex
    try:
        cov.update(prop.extra_coverage(m, tier) or {})
    except Exception as e:
        cov['extra_coverage_error'] = repr(e)
    ev = {'property_id': prop.id, 'tier': tier, 'seed': seed,
          'level': prop.level, 'coverage': cov,
          'assumptions': list(prop.assumptions),
          'wall_s': round(wall, 2), 'violations': n_viol}
    d = os.path.join(env.OUT, 'evidence')
    os.makedirs(d, exist_ok=True)
    tmp = os.path.join(d, '.%s.tmp' % prop.id)
    with open(tmp, 'w') as fh:
        json.dump(ev, fh, indent=1, ensure_ascii=False, default=str)
    os.replace(tmp, os.path.join(d, '%s.json' % prop.id))


def do_replay(prop, path):
    out = tempfile.mktemp(prefix='tsv-replay-')
    try:
        cmd = [env.PYTHON, '-B', '-m', 'tsv.worker', '--replay', prop.id, path, out]
        subprocess.run(cmd, cwd=env.VERIF, env=worker_env(), check=True)
        r = json.load(open(out))
    finally:
        try:
            os.unlink(out)
        except OSError:
            pass
    known = findings.known_for(prop.id)
    if r['harness_error']:
        print('INCONCLUSIVE property=%s reason=replay crashed: %s' % (
            prop.id, r['harness_error'][-400:]))
        return 2
    if not r['failures']:
        print('%s: replay passes (no failure on this tree)' % prop.id)
        return 0
    for f in r['failures']:
        print('  check=%s detail=%s' % (f['check'], str(f['detail'])[:600]))
    if r['known'] in known:
        print('KNOWN-FINDING: property=%s %s :: %s' % (
            prop.id, r['known'], known[r['known']]))
        return 0
    print('VIOLATION property=%s replay=%s' % (prop.id, path))
    return 1
