"""Worker process: runs one shard of one property's workload.

usage: python -m tsv.worker <ID> <tier> <seed> <shard> <nshards> <probed 0|1>
                            <out.json> <budget_s>
       python -m tsv.worker --replay <ID> <replay.json> <out.json>
"""
import array
import json
import os
import signal
import sys
import time
import traceback

from tsv import env

env.setup_path()

from tsv.base import Ctx, CaseTimeout, ProbeAbort, digest, short  # noqa: E402
from tsv import findings  # noqa: E402

MAX_FAIL_RECORDS = 40
MAX_SAMPLES = 12


def load_prop(pid):
    import importlib
    mod = importlib.import_module('tsv.props.' + pid.lower())
    return mod.PROP


def setup_probes(prop, ctx, probed):
    """`always_probes` are the cheap progress monitors a property needs on
    every case (C06); `probes` are the full contracts of the probed pass."""
    from tsv.probe import install
    always = tuple(getattr(prop, 'always_probes', ()))
    if always:
        install.install(always, ctx)
        ctx.probes_on = True
        ctx.probes_light = True
    if probed:
        install.install(prop.probes, ctx)
        ctx.probes_on = True
        ctx.probes_light = False


def _alarm(signum, frame):
    raise CaseTimeout()


def texsoup_frames(tb):
    root = os.path.join(env.REPO, 'TexSoup')
    out = []
    for fr in traceback.extract_tb(tb):
        if os.path.realpath(fr.filename).startswith(root):
            out.append('%s:%s:%s' % (os.path.basename(fr.filename), fr.name,
                                     fr.lineno))
    return out


def run_check(prop, payload, ctx):
    """Run the oracle on one case. Returns (failures, harness_error|None)."""
    ctx.probe_violations = []
    ctx.case_info = {}
    signal.signal(signal.SIGALRM, _alarm)
    signal.alarm(int(prop.case_alarm))
    try:
        fails = list(prop.check(payload, ctx) or [])
    except CaseTimeout:
        fails = [{'check': 'timeout', 'detail':
                  'case exceeded the %ss alarm' % prop.case_alarm}]
    except ProbeAbort as e:
        fails = []
        if not ctx.probe_violations:
            fails = [{'check': 'probe-abort', 'detail': str(e)}]
    except RecursionError as e:
        fails = [{'check': 'exception', 'detail': 'RecursionError',
                  'frames': []}]
    except Exception as e:  # noqa
        frames = texsoup_frames(e.__traceback__)
        if frames:
            fails = [{'check': 'exception',
                      'detail': '%s: %s' % (type(e).__name__, short(str(e))),
                      'frames': frames[-4:]}]
        else:
            signal.alarm(0)
            return [], traceback.format_exc()
    finally:
        signal.alarm(0)
    for pv in ctx.probe_violations[:5]:
        fails.append({'check': 'probe:' + pv['probe'], 'detail': pv['detail']})
    return fails, None


def main(argv):
    if argv[0] == '--replay':
        return replay(argv[1], argv[2], argv[3])
    pid, tier, seed, shard, nshards, probed, out, budget = argv
    seed, shard, nshards = int(seed), int(shard), int(nshards)
    probed, budget = bool(int(probed)), float(budget)
    env.assert_repo()
    prop = load_prop(pid)
    ctx = Ctx()
    setup_probes(prop, ctx, probed)

    every = prop.probed_every if probed else 1

    def want(k):
        # multiplicative hashing, so that shard membership and the probed
        # subsample do not correlate with the generators' rotations over k
        h = (k * 2654435761) & 0xffffffff
        if probed:
            return (h >> 4) % every == 0 and (h >> 12) % nshards == shard
        return (h >> 12) % nshards == shard

    t0 = time.time()
    res = {'pid': pid, 'tier': tier, 'seed': seed, 'shard': shard,
           'probed': probed, 'evaluations': 0, 'failures': [],
           'n_failures': 0, 'harness_errors': [], 'timeouts': 0,
           'samples': [], 'truncated': False, 'known_hits': {}}
    digs = array.array('Q')
    seen_fail_sigs = {}
    progress = out + '.progress'
    pfd = os.open(progress, os.O_WRONLY | os.O_CREAT, 0o644)
    it = prop.cases(tier, seed, want)
    smallest = None
    largest = None
    # self-test only (selftest/run_mutants.py): stop all workers of the run as
    # soon as one of them has a shrunk, unexplained witness
    failfast = os.path.join(os.path.dirname(out), 'FAILFAST') \
        if os.environ.get('TSV_FAILFAST') else None
    for k, payload in it:
        if time.time() - t0 > budget:
            res['truncated'] = True
            break
        if failfast and res['evaluations'] % 16 == 0 and os.path.exists(failfast):
            res['truncated'] = True
            break
        res['evaluations'] += 1
        os.pwrite(pfd, b'%-24d' % k, 0)
        fails, herr = run_check(prop, payload, ctx)
        if herr:
            res['harness_errors'].append({'k': k, 'trace': herr[-1500:]})
            if len(res['harness_errors']) > 5:
                break
            continue
        if prop.nontrivial(payload):
            digs.append(digest(payload))
        if len(res['samples']) < MAX_SAMPLES and (
                res['evaluations'] in (1, 2, 3) or res['evaluations'] % 997 == 0):
            res['samples'].append(prop.sample(payload))
        size = len(json.dumps(payload))
        if smallest is None or size < smallest[0]:
            smallest = (size, prop.sample(payload))
        if largest is None or size > largest[0]:
            largest = (size, prop.sample(payload))
        if not fails:
            continue
        for f in fails:
            if f['check'] == 'timeout':
                res['timeouts'] += 1
        res['n_failures'] += 1
        sig = '|'.join(sorted(set(f['check'] for f in fails)))
        seen_fail_sigs[sig] = seen_fail_sigs.get(sig, 0) + 1
        # keep a few witnesses per signature; shrink + classify those
        if seen_fail_sigs[sig] <= 6 and len(res['failures']) < MAX_FAIL_RECORDS:
            rec = finish_failure(prop, payload, fails, ctx, k)
            res['failures'].append(rec)
            if rec.get('known'):
                res['known_hits'][rec['known']] = \
                    res['known_hits'].get(rec['known'], 0) + 1
            elif failfast:
                open(failfast, 'w').close()
                res['truncated'] = True
                break
        else:
            # cheap classification without shrinking, so that the totals are
            # right: known vs unknown
            key = findings.classify(prop, payload, fails, ctx,
                                    lambda p: run_check(prop, p, Ctx() if not probed else ctx)[0])
            if key:
                res['known_hits'][key] = res['known_hits'].get(key, 0) + 1
            else:
                res.setdefault('unclassified_extra', 0)
                res['unclassified_extra'] += 1
                if len(res['failures']) < MAX_FAIL_RECORDS + 20:
                    res['failures'].append({'k': k, 'payload': payload,
                                            'failures': fails, 'known': None,
                                            'shrunk': False})
    if smallest:
        res['samples'].append(smallest[1])
    if largest:
        res['samples'].append(largest[1])
    res['wall_s'] = time.time() - t0
    res['counters'] = ctx.counters
    res['sets'] = {g: sorted(v, key=repr) for g, v in ctx.sets.items()}
    digs = array.array('Q', sorted(digs))
    with open(out + '.digests', 'wb') as fh:
        digs.tofile(fh)
    with open(out, 'w') as fh:
        json.dump(res, fh)
    try:
        os.unlink(progress)
    except OSError:
        pass
    return 0


def finish_failure(prop, payload, fails, ctx, k):
    """Shrink the witness (bounded) and attribute it to a known finding."""
    names = set(f['check'] for f in fails)

    def rerun(p):
        c = ctx if ctx.probes_on else Ctx()
        return run_check(prop, p, c)[0]

    def still_fails(p):
        got = rerun(p)
        return bool(names & set(f['check'] for f in got))

    shrunk = payload
    try:
        if 'timeout' not in names:
            shrunk = prop.shrink(payload, still_fails)
    except Exception:
        shrunk = payload
    sf = rerun(shrunk) if shrunk is not payload else fails
    if not sf:
        shrunk, sf = payload, fails
    key = findings.classify(prop, shrunk, sf, ctx, rerun)
    return {'k': k, 'payload': shrunk, 'failures': sf, 'known': key,
            'shrunk': shrunk is not payload,
            'original': payload if shrunk is not payload else None}


def replay(pid, path, out):
    env.assert_repo()
    prop = load_prop(pid)
    rec = json.load(open(path))
    ctx = Ctx()
    setup_probes(prop, ctx, rec.get('probed'))
    fails, herr = run_check(prop, rec['payload'], ctx)
    key = None
    if fails:
        key = findings.classify(prop, rec['payload'], fails, ctx,
                                lambda p: run_check(prop, p, ctx)[0])
    json.dump({'failures': fails, 'harness_error': herr, 'known': key},
              open(out, 'w'))
    return 0


if __name__ == '__main__':
    sys.exit(main(sys.argv[1:]))
