"""Alignment oracles for C07(c) / C08: "output = input with only these
deletions / insertions"."""
import re

_WS = ' \t\n\r'


def ws_runs_before_openers(s):
    """set of indices of whitespace characters that belong to a whitespace run
    standing directly before '{' or '['"""
    ok = set()
    for m in re.finditer(r'[ \t\n\r]+(?=[\[{])', s):
        ok.update(range(m.start(), m.end()))
    return ok


def only_ws_before_openers_removed(inp, out):
    """None if `out` equals `inp` except for deleted whitespace characters of
    runs directly before an opening brace/bracket; else a description of the
    first divergence.  Greedy two-pointer is complete because eligibility is a
    property of the input position alone."""
    ok = ws_runs_before_openers(inp)
    i = j = 0
    n, m = len(inp), len(out)
    while i < n and j < m:
        if inp[i] == out[j]:
            i += 1
            j += 1
        elif i in ok:
            i += 1
        else:
            return 'input[%d:]=%r vs output[%d:]=%r' % (
                i, inp[i:i + 20], j, out[j:j + 20])
    while i < n and i in ok:
        i += 1
    if i < n:
        return 'input tail %r missing from output' % inp[i:i + 30]
    if j < m:
        return 'output has extra tail %r' % out[j:j + 30]
    return None


def only_closers_inserted(inp, out, env_names):
    """C07(c): `inp` must be derivable from `out` by deleting only occurrences
    of '}', ']' and '\\end{N}' (N in env_names) and re-inserting whitespace
    before argument openers.  Returns None or a description.

    Dynamic programme over (i, j): reach[i][j] = inp[:i] aligned with out[:j].
    """
    ok = ws_runs_before_openers(inp)
    ends = ['\\end{%s}' % n for n in env_names]
    n, m = len(inp), len(out)
    # frontier of reachable i for each j (sets stay tiny in practice)
    cur = {0}
    # allow skipping input whitespace at j = 0
    reach = [None] * (m + 1)

    def closure(S):
        S = set(S)
        stack = list(S)
        while stack:
            i = stack.pop()
            if i < n and i in ok and i + 1 not in S:
                S.add(i + 1)
                stack.append(i + 1)
        return S
    reach[0] = closure({0})
    for j in range(m):
        if reach[j] is None or not reach[j]:
            continue
        S = reach[j]
        # match one char
        nxt = {i + 1 for i in S if i < n and inp[i] == out[j]}
        # inserted single-char closer
        if out[j] in '}]':
            nxt |= S
        if nxt:
            reach[j + 1] = closure(nxt | (reach[j + 1] or set()))
        # inserted \end{N}
        for e in ends:
            if out.startswith(e, j):
                reach[j + len(e)] = closure(S | (reach[j + len(e)] or set()))
    final = reach[m] or set()
    if n in final:
        return None
    best_j = max(j for j in range(m + 1) if reach[j])
    best_i = max(reach[best_j])
    return 'cannot align: input[%d:]=%r vs output[%d:]=%r' % (
        best_i, inp[best_i:best_i + 24], best_j, out[best_j:best_j + 24])
