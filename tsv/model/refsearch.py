"""Reference tree walk over the raw representation (`args`, `_contents`),
independent of TexSoup's own navigation code.  Used as the oracle for search
(C03), for the navigation closures (C04) and after edits (C15)."""


def unwrap(x):
    """edits may leave TexNode wrappers or plain str in content lists"""
    from TexSoup.data import TexNode
    return x.expr if isinstance(x, TexNode) else x


def is_blank_text(x):
    from TexSoup.data import TexText
    while isinstance(x, TexText):
        x = x._text
    return isinstance(x, str) and x.isspace()


def is_text(x):
    from TexSoup.data import TexText
    return isinstance(x, (TexText, str))


def leaf_token(x):
    from TexSoup.data import TexText
    while isinstance(x, TexText):
        x = x._text
    return x


def content_list(expr):
    """the node's complete content list: argument contents, then contents
    (whitespace-only text inside arguments is kept here; callers filter)"""
    out = []
    for arg in expr.args:
        for c in getattr(arg, '_contents', ()):
            out.append(unwrap(c))
    for c in expr._contents:
        out.append(unwrap(c))
    return out


def visible(expr):
    """content list without whitespace-only text"""
    return [c for c in content_list(expr) if not is_blank_text(c)]


def closure(expr):
    """all descendants (nodes and non-blank text leaves), document order,
    depth first"""
    out = []

    def rec(e):
        for c in visible(e):
            out.append(c)
            if not is_text(c):
                rec(c)
    rec(expr)
    return out


def key(x):
    """identity key that is stable across the navigation views: expressions
    by id, text leaves by the id of the token they carry"""
    from TexSoup.data import TexNode, TexText
    if isinstance(x, TexNode):
        x = x.expr
    while isinstance(x, TexText):      # setters may wrap a text twice
        x = x._text
    return id(x)


def name_matches(expr, query):
    """reference semantics of a by-name query"""
    return getattr(expr, 'name', None) == query


def full_expression_matches(expr, query):
    from TexSoup.data import TexEnv
    if str(expr) == query:
        return True
    if isinstance(expr, TexEnv):
        begin = expr.begin
        return query == begin or query == begin + str(expr.args)
    return False


def search(expr, query):
    """reference result of find_all(query) rooted at expr: list of expressions"""
    out = []
    for c in closure(expr):
        if is_text(c):
            continue
        if isinstance(query, list):
            ok = getattr(c, 'name', None) in query
        elif '{' in query or '[' in query:
            ok = full_expression_matches(c, query)
        else:
            ok = name_matches(c, query)
        if ok:
            out.append(c)
    return out
