"""Convert a TexSoup expression tree into the generator's AST, using only the
raw data representation (`_contents`, `args`, class, `name`, token category
for comments).  Adjacent text leaves are merged: leaf segmentation is a
tokenizer detail no property constrains.
"""
from tsv.gen.docgen import VENV


def conv_list(exprs, skip):
    from TexSoup.data import TexNode
    out = []
    for e in exprs:
        if isinstance(e, TexNode):      # wrappers stored by edits
            e = e.expr
        n = conv(e, skip)
        if n[0] == 'T' and out and out[-1][0] == 'T':
            out[-1] = ('T', out[-1][1] + n[1])
        elif n[0] == 'T' and n[1] == '':
            continue
        else:
            out.append(n)
    return out


def conv_args(args, skip):
    from TexSoup.data import BraceGroup, BracketGroup, TexCmd
    res = []
    for a in args:
        if isinstance(a, BracketGroup):
            res.append(('o', conv_list(a._contents, skip)))
        elif isinstance(a, BraceGroup):
            res.append(('r', conv_list(a._contents, skip)))
        elif isinstance(a, TexCmd) and not a.args and not a._contents:
            res.append(('c', str(a.name)))
        else:
            res.append(('?', repr(a)))
    return res


def conv(e, skip=frozenset(VENV)):
    from TexSoup.data import (TexText, TexCmd, TexNamedEnv, BraceGroup,
                              BracketGroup, TexEnv)
    from TexSoup.utils import Token, TC
    if isinstance(e, TexText):
        t = e._text
        if isinstance(t, Token) and t.category == TC.Comment:
            return ('K', str(t))
        return ('T', str(t))
    if isinstance(e, str):
        if isinstance(e, Token) and e.category == TC.Comment:
            return ('K', str(e))
        return ('T', str(e))
    if isinstance(e, TexCmd):
        if e.name == 'item':
            return ('I', conv_args(e.args, skip), conv_list(e._contents, skip))
        if e._contents:
            return ('C!', str(e.name), conv_args(e.args, skip),
                    conv_list(e._contents, skip))
        return ('C', str(e.name), conv_args(e.args, skip))
    if isinstance(e, TexNamedEnv):
        if e.name in skip:
            body = ''.join(map(str, e._contents))
            if e.args or len(e._contents) != 1:
                return ('V!', str(e.name), conv_args(e.args, skip),
                        [str(c) for c in e._contents])
            return ('V', str(e.name), body)
        return ('E', str(e.name), conv_args(e.args, skip),
                conv_list(e._contents, skip))
    if isinstance(e, BraceGroup):
        return ('G', conv_list(e._contents, skip))
    if isinstance(e, BracketGroup):
        return ('B', conv_list(e._contents, skip))
    if isinstance(e, TexEnv):
        if e.args:
            return ('M!', str(e.begin), conv_args(e.args, skip),
                    conv_list(e._contents, skip))
        return ('M', str(e.begin), conv_list(e._contents, skip))
    raise TypeError(type(e))


def first_diff(a, b, path='root'):
    """first differing path between two ASTs (lists/tuples/strings)"""
    if isinstance(a, (list, tuple)) and isinstance(b, (list, tuple)):
        for i, (x, y) in enumerate(zip(a, b)):
            d = first_diff(x, y, '%s/%d' % (path, i))
            if d:
                return d
        if len(a) != len(b):
            return '%s: length %d vs %d; extra %r' % (
                path, len(a), len(b),
                (a[len(b):] or b[len(a):])[:1])
        return None
    if a != b:
        return '%s: %r vs %r' % (path, a, b)
    return None
