"""Reference document model for edit histories (C14, C15).

A small tree mirroring the raw structure of a parsed document (text leaves
are *not* merged, so content-list indices coincide with TexSoup's), with
`render()` and the edit operations of the properties, addressed by structural
path.  Every model node remembers the real expression object it mirrors
(`real`), which is how targets are addressed by identity on the real tree.
"""


class MN:
    __slots__ = ('kind', 'name', 'args', 'body', 'real', 'open', 'close', 'text')

    def __init__(self, kind, name=None, args=None, body=None, real=None,
                 open='', close='', text=None):
        self.kind = kind          # root | cmd | env | group | math | arg | text
        self.name = name
        self.args = args if args is not None else []
        self.body = body if body is not None else []
        self.real = real
        self.open = open
        self.close = close
        self.text = text

    def supports_contents(self):
        return self.kind in ('root', 'env', 'group', 'math') or \
            (self.kind == 'cmd' and self.name == 'item')


def from_list(items):
    return [from_expr(e) for e in items]


def from_expr(e):
    from TexSoup.data import (TexNode, TexText, TexCmd, TexNamedEnv, BraceGroup,
                              BracketGroup, TexEnv)
    if isinstance(e, TexNode):
        e = e.expr
    if isinstance(e, TexText):
        return MN('text', real=e, text=str(e._text))
    if isinstance(e, str):
        return MN('text', real=e, text=str(e))
    if isinstance(e, TexCmd):
        return MN('cmd', str(e.name), from_args(e.args), from_list(e._contents), e)
    if isinstance(e, TexNamedEnv):
        return MN('env', str(e.name), from_args(e.args), from_list(e._contents), e)
    if isinstance(e, (BraceGroup, BracketGroup)):
        return MN('group', None, [], from_list(e._contents), e,
                  open=e.begin, close=e.end)
    if isinstance(e, TexEnv):
        return MN('math', None, from_args(e.args), from_list(e._contents), e,
                  open=e.begin, close=e.end)
    raise TypeError(type(e))


def from_args(args):
    from TexSoup.data import TexCmd
    out = []
    for a in args:
        if isinstance(a, TexCmd):
            out.append(MN('cmd', str(a.name), [], [], a))
        else:
            out.append(MN('arg', None, [], from_list(a._contents), a,
                          open=a.begin, close=a.end))
    return out


def from_soup(soup):
    return MN('root', '[tex]', [], from_list(soup.expr._contents), soup.expr)


def render(n):
    k = n.kind
    if k == 'text':
        return n.text
    body = ''.join(render(c) for c in n.body)
    args = ''.join(render(a) for a in n.args)
    if k == 'root':
        return body
    if k == 'cmd':
        return '\\' + n.name + args + body
    if k == 'env':
        return '\\begin{%s}' % n.name + args + body + '\\end{%s}' % n.name
    return n.open + args + body + n.close


def children_lists(n):
    """the content lists a node owns, in document order"""
    for a in n.args:
        if a.kind == 'arg':
            yield a.body
    yield n.body


def walk(n):
    """every non-text, non-arg node below n, document order, with its holder
    list and index: (node, holder_list, index, owner, in_arg)"""
    for a in n.args:
        if a.kind == 'arg':
            for i, c in enumerate(a.body):
                if c.kind != 'text':
                    yield c, a.body, i, n, True
                    yield from walk(c)
    for i, c in enumerate(n.body):
        if c.kind != 'text':
            yield c, n.body, i, n, False
            yield from walk(c)


def texts(n, keep_blank=False):
    """text leaves in document order (through arguments first, as `.text`)"""
    out = []
    for lst in children_lists(n):
        for c in lst:
            if c.kind == 'text':
                if keep_blank or not c.text.isspace():
                    out.append(c.text)
            else:
                out.extend(texts(c, keep_blank))
    return out


def node_ids(n):
    return [id(c.real) for c, _, _, _, _ in walk(n)]


def names(n):
    return sorted(set(c.name for c, _, _, _, _ in walk(n) if c.name))
