"""pytest plugin: run the repository's own tests with the in-situ contracts
on (guidance: a contract that fires there is either too strict or a defect
the tests do not assert).

  cd /repo && TEXSOUP_VERIF=1 PYTHONPATH=/verif /venv/bin/python -m pytest -q \
      -p tsv.pytest_probes --no-cov -p no:cacheprovider
"""
import pytest

from tsv import env
from tsv.base import Ctx

CTX = Ctx()
SEEN = []


def pytest_configure(config):
    env.ensure_deps()
    env.setup_path()
    from tsv.probe import install
    install.install(('buf', 'tok', 'read', 'args', 'edit'), CTX)
    CTX.probes_on = True


@pytest.hookimpl(hookwrapper=True)
def pytest_runtest_call(item):
    CTX.probe_violations = []
    CTX.case_info = {}
    yield
    if CTX.probe_violations:
        SEEN.append((item.nodeid, list(CTX.probe_violations)))


def pytest_terminal_summary(terminalreporter):
    tr = terminalreporter
    tr.write_line('in-situ contracts: %d evaluations (%s)' % (
        sum(v for k, v in CTX.counters.items() if k.startswith('probe:')),
        ', '.join('%s=%d' % (k[6:], v) for k, v in sorted(CTX.counters.items())
                  if k.startswith('probe:'))))
    for nodeid, vs in SEEN:
        tr.write_line('CONTRACT VIOLATION in %s: %s' % (nodeid, vs[0]))
    tr.write_line('%d test(s) with contract violations' % len(SEEN))
