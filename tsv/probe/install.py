"""In-situ monitors (DESIGN 2.2): contracts attached to the *real* TexSoup code
by rebinding, from the harness, when TEXSOUP_VERIF=1.  /repo is not edited.

Every binding site is patched: module globals that the code looks up at call
time (reader.read_expr, reader.make_read_peek, tokens.next_token), the
`tokens.tokenizers` registry (a list of (name, f) pairs holding direct
references) and methods on the classes themselves (Buffer, TexArgs, TexExpr,
TexNode).  Each contract counts its evaluations in ctx.counters
('probe:<name>'); a deciding contract with zero evaluations makes the verdict
inconclusive.

Probes are passive: they read `_Buffer__queue` / `_Buffer__i` directly and
never call peek/next on a live buffer.

A violated contract appends {'probe', 'detail'} to ctx.probe_violations (it
records and lets the call return, so one defect does not mask the rest);
"no progress" conditions raise ProbeAbort (BaseException) to get out of what
would otherwise be an endless loop.
"""
import functools
import os

from tsv import env

_INSTALLED = set()
CTX = None


from tsv.base import ProbeAbort  # noqa: E402  (BaseException)


def violation(probe, detail):
    if len(CTX.probe_violations) < 20:
        CTX.probe_violations.append({'probe': probe, 'detail': detail})


def install(names, ctx):
    global CTX
    if os.environ.get(env.GUARD) != '1':
        raise SystemExit('INCONCLUSIVE reason=probes requested but %s!=1' % env.GUARD)
    CTX = ctx
    for n in names:
        if n in _INSTALLED:
            continue
        {'buf': install_buf, 'tok': install_tok, 'read': install_read,
         'args': install_args, 'edit': install_edit, 'reach': install_reach,
         'loops': install_loops}[n]()
        _INSTALLED.add(n)


# ------------------------------------------------------------------ P-buf --

def _q(b):
    return b._Buffer__queue


def _i(b):
    return b._Buffer__i


def _join(items):
    return ''.join(str(x) for x in items)


def install_buf():
    """C20 in situ: every Buffer operation issued by the tokenizer and the
    readers during real parses is compared with (list, index)."""
    from TexSoup.utils import Buffer, MixedBuffer

    def texty(b):
        return not isinstance(b, MixedBuffer)

    def wrap(name, contract):
        orig = getattr(Buffer, name)

        @functools.wraps(orig)
        def w(self, *a, **k):
            i0 = _i(self)
            try:
                r = orig(self, *a, **k)
            except StopIteration:
                if name == '__next__' and _i(self) != i0:
                    violation('buf', '__next__ raised StopIteration but moved the cursor')
                raise
            CTX.counters['probe:buf'] = CTX.counters.get('probe:buf', 0) + 1
            try:
                msg = contract(self, i0, _i(self), r, a, k)
            except Exception as e:       # a contract must never break a parse
                msg = 'contract raised %r' % e
            if msg:
                violation('buf', '%s%r at cursor %d: %s' % (name, a, i0, msg))
            if not CTX.probes_light:
                CTX.seen('buf_state', (name, min(len(_q(self)) - i0, 3)))
            return r
        setattr(Buffer, name, w)

    def c_forward(b, i0, i1, r, a, k):
        j = a[0] if a else k.get('j', 1)
        if j < 0:
            return None
        if i1 != i0 + j:
            return 'cursor moved by %d, expected %d' % (i1 - i0, j)
        if texty(b) and str(r) != _join(_q(b)[i0:i1]):
            return 'returned %r, items are %r' % (str(r), _join(_q(b)[i0:i1]))

    def c_backward(b, i0, i1, r, a, k):
        j = a[0] if a else k.get('j', 1)
        if j < 0:
            return None
        if i1 != i0 - j:
            return 'cursor moved by %d, expected %d' % (i1 - i0, -j)
        if texty(b) and str(r) != _join(_q(b)[i1:i0]):
            return 'returned %r, items are %r' % (str(r), _join(_q(b)[i1:i0]))

    def c_peek(b, i0, i1, r, a, k):
        if i1 != i0:
            return 'peek moved the cursor from %d to %d' % (i0, i1)
        j = a[0] if a else k.get('j', 0)
        q = _q(b)
        if isinstance(j, int):
            if i0 + j < 0:
                return None
            if i0 + j < len(q):
                if r is not q[i0 + j]:
                    return 'returned %r, item is %r' % (r, q[i0 + j])
            elif r is not None:
                return 'returned %r past the materialised end' % (r,)
        elif i0 + j[0] >= 0 and r is not None and texty(b):
            if str(r) != _join(q[i0 + j[0]:max(i0 + j[1], 0)]):
                return 'range returned %r, items are %r' % (
                    str(r), _join(q[i0 + j[0]:i0 + j[1]]))

    def c_next(b, i0, i1, r, a, k):
        if i1 != i0 + 1:
            return 'cursor moved by %d' % (i1 - i0)
        if r is not _q(b)[i0]:
            return 'returned %r, item is %r' % (r, _q(b)[i0])

    def c_still(b, i0, i1, r, a, k):
        if i1 != i0:
            return 'cursor moved from %d to %d' % (i0, i1)

    def c_hasnext(b, i0, i1, r, a, k):
        if i1 != i0:
            return 'cursor moved from %d to %d' % (i0, i1)
        n = a[0] if a else k.get('n', 1)
        q = _q(b)
        exp = i0 + n - 1 < len(q) and bool(q[i0 + n - 1])
        if bool(r) != exp:
            return 'returned %r, model says %r' % (r, exp)

    def c_forward_until(b, i0, i1, r, a, k):
        if i1 < i0:
            return 'cursor moved backwards'
        if texty(b) and str(r) != _join(_q(b)[i0:i1]):
            return 'returned %r, items are %r' % (str(r), _join(_q(b)[i0:i1]))

    wrap('forward', c_forward)
    wrap('backward', c_backward)
    wrap('peek', c_peek)
    wrap('__next__', c_next)
    wrap('__getitem__', c_still)
    wrap('hasNext', c_hasnext)
    wrap('startswith', c_still)
    wrap('endswith', c_still)
    wrap('forward_until', c_forward_until)
    wrap('num_forward_until', c_still)


# ------------------------------------------------------------------ P-tok --

def install_tok():
    """C19 / C06 in situ: every token emitted during real parses is non-empty,
    is exactly the characters the cursor moved over, records the offset of
    its first character, and every round of token rules makes progress."""
    from TexSoup import tokens
    from TexSoup.utils import TC, CC
    state = {'idle': 0, 'pos': None, 'buf': None}
    nrules = max(1, len(tokens.tokenizers))

    def wrap_rule(name, f):
        @functools.wraps(f)
        def w(text, prev=None):
            p0 = _i(text)
            tok = f(text, prev=prev)
            p1 = _i(text)
            CTX.counters['probe:tok'] = CTX.counters.get('probe:tok', 0) + 1
            if state['buf'] is not text:
                state['buf'], state['idle'] = text, 0
            if p1 == p0:
                state['idle'] += 1
                if state['idle'] > 4 * nrules + 4:
                    state['idle'] = 0
                    violation('tok', 'no token rule consumed a character at offset %d (%r): no progress'
                              % (p0, _join(_q(text)[p0:p0 + 8])))
                    raise ProbeAbort('tokenizer makes no progress')
            else:
                state['idle'] = 0
            if tok is None:
                if p1 < p0:
                    violation('tok', 'rule %s moved the cursor backwards without a token' % name)
                elif p1 > p0:
                    skipped = _q(text)[p0:p1]
                    if any(c.category not in (CC.Ignored, CC.Invalid) for c in skipped):
                        violation('tok', 'rule %s consumed %r without emitting a token'
                                  % (name, _join(skipped)))
                return tok
            chars = _q(text)[p0:p1]
            if str(tok) == '':
                violation('tok', 'rule %s emitted an empty token at offset %d' % (name, p0))
            elif str(tok) != _join(chars):
                violation('tok', 'rule %s emitted %r but the cursor moved over %r'
                          % (name, str(tok), _join(chars)))
            elif chars and tok.position != chars[0].position:
                violation('tok', 'rule %s: token %r records position %r, first character is at %r'
                          % (name, str(tok), tok.position, chars[0].position))
            if tok.category not in TC:
                violation('tok', 'rule %s: category %r is not a token code' % (name, tok.category))
            return tok
        return w

    for idx, (name, f) in enumerate(list(tokens.tokenizers)):
        tokens.tokenizers[idx] = (name, wrap_rule(name, f))

    orig_next = tokens.next_token

    @functools.wraps(orig_next)
    def next_token(text, prev=None):
        tok = orig_next(text, prev=prev)
        if tok is not None and not CTX.probes_light:
            CTX.seen('token_bigram_in_situ',
                     (getattr(getattr(prev, 'category', None), 'name', None),
                      getattr(tok.category, 'name', str(tok.category))))
        return tok
    tokens.next_token = next_token


# ----------------------------------------------------------------- P-read --

STEP_BUDGET = {'limit': None}


def install_read():
    """C06 / C01 in situ: read_expr strictly advances the token cursor, peek
    wrappers leave it where it was, and the number of reader calls stays
    within the step budget."""
    from TexSoup import reader

    orig_expr = reader.read_expr

    @functools.wraps(orig_expr)
    def read_expr(src, *a, **k):
        info = CTX.case_info
        info['steps'] = info.get('steps', 0) + 1
        lim = STEP_BUDGET['limit']
        if lim is not None and info['steps'] > lim:
            info['over_budget'] = True
            raise ProbeAbort('step budget exceeded')
        p0 = src.position
        r = orig_expr(src, *a, **k)
        CTX.counters['probe:read_expr'] = CTX.counters.get('probe:read_expr', 0) + 1
        if not src.position > p0:
            violation('read', 'read_expr returned %r without advancing the cursor (at token %d)'
                      % (r, p0))
            raise ProbeAbort('reader makes no progress')
        return r
    reader.read_expr = read_expr
    import TexSoup.tex
    if getattr(TexSoup.tex, 'read_expr', None) is orig_expr:
        TexSoup.tex.read_expr = read_expr

    # local conservation (lite): the group / item body a reader returns
    # serialises to exactly the tokens it consumed - up to whitespace dropped
    # before an opener (C08 relation) and, in tolerant mode, inserted closers.
    # Localises a lost or invented character to the innermost reader call.
    import re as _re
    from tsv.model.align import only_closers_inserted
    _SIG = _re.compile(r'\\(?:def|textbf|section|label)(?![A-Za-z*])')

    def _env_names(objs, acc, depth=0):
        # names of the environment nodes below `objs` (a name may itself
        # contain braces: `\begin{{}}`), for the closers-only alignment
        from TexSoup.data import TexNamedEnv, TexExpr
        for o in objs:
            if isinstance(o, TexNamedEnv):
                acc.add(str(o.name))
            if isinstance(o, TexExpr) and depth < 60:
                for a in getattr(o, 'args', ()):
                    _env_names(getattr(a, '_contents', ()), acc, depth + 1)
                _env_names(getattr(o, '_contents', ()), acc, depth + 1)
        return acc

    def conserved(what, consumed, produced, nodes=()):
        if CTX.probes_light or len(consumed) > 400 or _SIG.search(consumed) \
                or '\x00' in consumed or '\x7f' in consumed:
            return
        CTX.counters['probe:conservation'] = CTX.counters.get('probe:conservation', 0) + 1
        if consumed == produced:
            return
        names = set(_re.findall(r'\\begin\{([^{}]*)\}', produced)) | _env_names(nodes, set())
        why = only_closers_inserted(consumed, produced, names)
        if why and _re.search(r'\\begin\s*[\[{]\s|\\begin\s*\[|\s\}', consumed):
            return          # known normalisations of environment names (D11, D15)
        if why:
            violation('read', '%s consumed %r but returned %r (%s)' % (
                what, consumed[:80], produced[:80], why))

    orig_arg = reader.read_arg

    @functools.wraps(orig_arg)
    def read_arg(src, c, *a, **k):
        p0 = src.position
        r = orig_arg(src, c, *a, **k)
        try:
            conserved('read_arg', str(c) + _join(_q(src)[p0:src.position]), str(r), (r,))
        except Exception as e:
            violation('read', 'conservation contract raised %r' % e)
        return r
    reader.read_arg = read_arg

    orig_item = reader.read_item

    @functools.wraps(orig_item)
    def read_item(src, *a, **k):
        p0 = src.position
        r = orig_item(src, *a, **k)
        try:
            conserved('read_item', _join(_q(src)[p0:src.position]), ''.join(map(str, r)), r)
        except Exception as e:
            violation('read', 'conservation contract raised %r' % e)
        return r
    reader.read_item = read_item

    orig_mrp = reader.make_read_peek

    def make_read_peek(f):
        inner = orig_mrp(f)

        @functools.wraps(inner)
        def w(buf, *a, **k):
            p0 = buf.position
            r = inner(buf, *a, **k)
            CTX.counters['probe:peek'] = CTX.counters.get('probe:peek', 0) + 1
            if buf.position != p0:
                violation('read', 'peek wrapper of %s left the cursor at %d, was %d'
                          % (getattr(f, '__name__', f), buf.position, p0))
            return r
        return w
    reader.make_read_peek = make_read_peek


# ----------------------------------------------------------------- P-args --

def install_args():
    """C18 in situ (icontract on the real TexArgs): after every mutator the
    list holds only groups/commands and the private shadow list holds exactly
    the same objects (plus whitespace strings)."""
    import icontract
    from TexSoup.data import TexArgs, TexGroup, TexCmd

    class ArgsBroken(Exception):
        pass

    def shadow_agrees(self):
        CTX.counters['probe:args'] = CTX.counters.get('probe:args', 0) + 1
        if not all(isinstance(a, (TexGroup, TexCmd)) for a in self):
            violation('args', 'argument list holds a non-group: %r' % (list(self),))
            return True
        real = sorted(id(a) for a in self)
        shadow = sorted(id(a) for a in self.all if not isinstance(a, str) or
                        isinstance(a, (TexGroup, TexCmd)))
        if real != shadow:
            violation('args', 'shadow list .all %r disagrees with the list %r'
                      % (self.all, list(self)))
        return True

    for name in ('insert', 'remove', 'pop', 'reverse', 'clear'):
        orig = getattr(TexArgs, name)
        setattr(TexArgs, name, icontract.ensure(
            shadow_agrees, error=ArgsBroken)(orig))


# ----------------------------------------------------------------- P-edit --

def install_edit():
    """C05 / C15 in situ: identity-based pre/post snapshots around the
    expression-level mutators."""
    from TexSoup.data import TexExpr, TexNode

    def ids(lst):
        return [id(x.expr) if isinstance(x, TexNode) else id(x) for x in lst]

    orig_remove = TexExpr.remove

    @functools.wraps(orig_remove)
    def remove(self, expr):
        before = list(self._contents)
        target = expr.expr if isinstance(expr, TexNode) else expr
        r = orig_remove(self, expr)
        after = list(self._contents)
        CTX.counters['probe:edit.remove'] = CTX.counters.get('probe:edit.remove', 0) + 1
        if not isinstance(r, int) or not 0 <= r < len(before):
            violation('edit', 'remove returned index %r' % (r,))
            return r
        if ids(after) != ids(before[:r] + before[r + 1:]):
            violation('edit', 'remove changed more than the element at the returned index %d' % r)
        here = [k for k, x in enumerate(before)
                if (x.expr if isinstance(x, TexNode) else x) is target]
        if here and r not in here:
            violation('edit', 'remove(%r) deleted the look-alike at index %d, the addressed object is at %r'
                      % (str(target)[:40], r, here))
        return r
    TexExpr.remove = remove

    orig_insert = TexExpr.insert

    @functools.wraps(orig_insert)
    def insert(self, i, *exprs):
        before = list(self._contents)
        r = orig_insert(self, i, *exprs)
        after = list(self._contents)
        CTX.counters['probe:edit.insert'] = CTX.counters.get('probe:edit.insert', 0) + 1
        n = len(before)
        j = i if i >= 0 else max(n + i, 0)
        j = min(j, n)
        if len(after) != n + len(exprs):
            violation('edit', 'insert of %d items changed the length by %d'
                      % (len(exprs), len(after) - n))
        elif ids(after[:j]) != ids(before[:j]) or ids(after[j + len(exprs):]) != ids(before[j:]):
            violation('edit', 'insert(%d, ...) disturbed the other elements' % i)
        return r
    TexExpr.insert = insert

    orig_append = TexExpr.append

    @functools.wraps(orig_append)
    def append(self, *exprs):
        before = list(self._contents)
        r = orig_append(self, *exprs)
        after = list(self._contents)
        CTX.counters['probe:edit.append'] = CTX.counters.get('probe:edit.append', 0) + 1
        if ids(after[:len(before)]) != ids(before) or len(after) != len(before) + len(exprs):
            violation('edit', 'append disturbed the existing elements')
        return r
    TexExpr.append = append


# ---------------------------------------------------------------- P-reach --

def install_reach():
    """Reach monitor (sys.monitoring, Python 3.12): which functions and lines
    of TexSoup the workload actually executed.  PY_START events count calls
    per function ('reach:<module>.<qualname>'); LINE events record each line
    once (the callback returns DISABLE, so the cost is paid once per line).
    A property lists the functions its anchors name (`reach_required`); one
    that was never reached makes the verdict inconclusive, never "held"."""
    import sys
    mon = sys.monitoring
    tool = mon.COVERAGE_ID
    try:
        mon.use_tool_id(tool, 'tsv-reach')
    except ValueError:
        return                      # another coverage tool owns the id
    root = os.path.join(env.REPO, 'TexSoup') + os.sep

    def on_start(code, offset):
        fn = code.co_filename
        if not fn.startswith(root):
            return mon.DISABLE
        key = 'reach:%s.%s' % (os.path.basename(fn)[:-3], code.co_qualname)
        CTX.counters[key] = CTX.counters.get(key, 0) + 1

    def on_line(code, line):
        fn = code.co_filename
        if fn.startswith(root):
            CTX.seen('lines:' + os.path.basename(fn)[:-3], line)
        return mon.DISABLE

    mon.register_callback(tool, mon.events.PY_START, on_start)
    mon.register_callback(tool, mon.events.LINE, on_line)
    mon.set_events(tool, mon.events.PY_START | mon.events.LINE)


# ---------------------------------------------------------------- P-loops --

LOOP_BUDGET = {'limit': None}
# hot `for` loops over module-level constant tables (20 category codes per
# character, ~150 sizing commands per command name): bounded by construction
BOUNDED_FOR_LOOPS = ('categorize', 'tokenize_punctuation_command_name')


def install_loops():
    """C06 in situ: loop-iteration budget.  sys.monitoring JUMP events fire on
    every backward jump (one per iteration of any `while`/`for` loop) in the
    code of TexSoup; they are counted per parse (ctx.case_info['jumps']) and
    the parse is aborted with ProbeAbort when the count exceeds the budget
    set by the property.  This bounds *every* loop of the package, also the
    ones that call none of the wrapped functions (e.g. a reader that pushes a
    token back and reads it again forever)."""
    import sys
    mon = sys.monitoring
    tool = mon.PROFILER_ID
    try:
        mon.use_tool_id(tool, 'tsv-loops')
    except ValueError:
        return
    root = os.path.join(env.REPO, 'TexSoup') + os.sep

    def on_jump(code, src_off, dst_off):
        if not code.co_filename.startswith(root):
            return mon.DISABLE
        if dst_off > src_off:
            return mon.DISABLE            # a forward jump is not a loop edge
        if code.co_qualname in BOUNDED_FOR_LOOPS:
            return mon.DISABLE            # `for` over a fixed table: cannot spin
        info = CTX.case_info
        n = info.get('jumps', 0) + 1
        info['jumps'] = n
        lim = LOOP_BUDGET['limit']
        if lim is not None and n > lim:
            info['over_loop_budget'] = True
            LOOP_BUDGET['limit'] = None      # raise once
            raise ProbeAbort('loop-iteration budget exceeded in %s' % code.co_qualname)

    mon.register_callback(tool, mon.events.JUMP, on_jump)
    mon.set_events(tool, mon.events.JUMP)
